#!/bin/bash
# Build the framework offline from files on disk only.
set -e
cd "$(dirname "$0")"
export CARGO_NET_OFFLINE=true
mkdir -p work evidence replays
cd harness
# the nodbg profile (no debug assertions, no overflow checks) lives in its own target directory and is built concurrently
( cargo build --profile nodbg --target-dir target/p_nodbg --bin c02 --bin c03 --bin c04 --bin c05 --bin c06 --bin c07 --bin c08 --bin c09 --bin c10 --bin c11 --bin c13 --bin c14 --bin c15 --bin c16 --bin c17 --bin c19 2>&1 | tail -1
  cargo build --profile nodbg --target-dir target/p_nodbg --bin c14 --features faster-hex 2>&1 | tail -1 ) &
cargo build --release --bins 2>&1 | tail -2
cargo build --release --bin c14 --features faster-hex 2>&1 | tail -1
cargo build --profile stk --bin c15 2>&1 | tail -1
wait
cd rlibdep
cargo build --target-dir ../target/rlibdep 2>&1 | tail -1
# warm the Miri build used by the quick tier of C09 (interpreter sysroot + harness under Miri)
cd ..
echo "[]" > ../work/empty_cases.json
MIRIFLAGS="-Zmiri-disable-isolation -Zmiri-tree-borrows" cargo +nightly miri run --bin c09 --target-dir target/miri -- --replay-many ../work/empty_cases.json 2>&1 | tail -1
MIRIFLAGS="-Zmiri-disable-isolation -Zmiri-tree-borrows" cargo +nightly miri run --bin c02 --target-dir target/miri -- --replay-many ../work/empty_cases.json 2>&1 | tail -1
MIRIFLAGS="-Zmiri-disable-isolation -Zmiri-tree-borrows" cargo +nightly miri run --bin c10 --target-dir target/miri -- --replay-many ../work/empty_cases.json 2>&1 | tail -1
MIRIFLAGS="-Zmiri-disable-isolation -Zmiri-tree-borrows" cargo +nightly miri run --bin c11 --target-dir target/miri -- --replay-many ../work/empty_cases.json 2>&1 | tail -1
