"""C19, const half: const_default() / DEFAULT compared element-wise at compile time for every storage shape."""
import os
import re
import time

import e2common as E

PID = "C19"

PRELUDE = r'''#![allow(dead_code, unused_imports, clippy::all)]
use const_default::ConstDefault;
use generic_array::typenum::operator_aliases::{Add1, Prod};
use generic_array::typenum::*;
use generic_array::GenericArray;

#[derive(Clone, Copy, PartialEq, Debug)]
struct P { a: u8, b: u16 }
impl ConstDefault for P { const DEFAULT: P = P { a: 0xAB, b: 0xCDEF }; }
impl Default for P { fn default() -> P { P::DEFAULT } }
const fn eq_p(x: &P) -> bool { x.a == 0xAB && x.b == 0xCDEF }
/// neither Copy nor Clone: the constant default must not need either
#[derive(PartialEq, Debug)]
struct NC { a: u16 }
impl ConstDefault for NC { const DEFAULT: NC = NC { a: 0x1234 }; }
impl Default for NC { fn default() -> NC { NC::DEFAULT } }
const fn eq_nc(x: &NC) -> bool { x.a == 0x1234 }
const fn eq_u8(x: &u8) -> bool { *x == 0 }
const fn eq_u64(x: &u64) -> bool { *x == 0 }
const fn eq_a3(x: &[u8; 3]) -> bool { x[0] == 0 && x[1] == 0 && x[2] == 0 }
const fn eq_nested(x: &GenericArray<u8, U3>) -> bool { let s = x.as_slice(); s.len() == 3 && s[0] == 0 && s[1] == 0 && s[2] == 0 }
const fn eq_np(x: &GenericArray<P, U2>) -> bool { let s = x.as_slice(); s.len() == 2 && eq_p(&s[0]) && eq_p(&s[1]) }
'''

TYPES = [("u8", "u8", "eq_u8"), ("u64", "u64", "eq_u64"), ("a3", "[u8; 3]", "eq_a3"), ("nested", "GenericArray<u8, U3>", "eq_nested"), ("P", "P", "eq_p"), ("nestedP", "GenericArray<P, U2>", "eq_np"), ("NC", "NC", "eq_nc")]
LENS = list(range(0, 65)) + [100, 127, 128, 255, 256, 1000, 1023, 1024, 2047, 2048, 4095, 4096, 8192, 10000]
EXPR = {3000: "Prod<U1000, U3>", 3500: "Prod<U500, U7>", 4097: "Add1<U4096>", 5000: "Prod<U1000, U5>", 6000: "Prod<U1000, U6>", 12000: "Prod<U1000, U12>"}
LENS += list(EXPR)


def uty(n):
    return EXPR.get(n, f"U{n}")


def run(root, pid, tier, seed):
    t0 = time.time()
    lib = E.Lib(root)
    wd = E.workdir(root, pid)
    items = []
    for (tn, ty, eq) in TYPES:
        for n in LENS:
            items.append((tn, ty, eq, n))
    nchunks = 8
    chunks = [items[i::nchunks] for i in range(nchunks)]

    def text_for(chunk):
        lines = [PRELUDE]
        spans = []
        ln = PRELUDE.count("\n") + 1
        for k, (tn, ty, eq, n) in enumerate(chunk):
            code = (f"const C_{k}: GenericArray<{ty}, {uty(n)}> = GenericArray::const_default();\n"
                    f"const D_{k}: GenericArray<{ty}, {uty(n)}> = <GenericArray<{ty}, {uty(n)}> as ConstDefault>::DEFAULT;\n"
                    f"const _: () = {{ let s = C_{k}.as_slice(); assert!(s.len() == {n}); let mut i = 0; while i < s.len() {{ assert!({eq}(&s[i])); i += 1; }}\n"
                    f"    let s = D_{k}.as_slice(); assert!(s.len() == {n}); let mut i = 0; while i < s.len() {{ assert!({eq}(&s[i])); i += 1; }} }};")
            spans.append((ln, ln + 3, (tn, n)))
            lines.append(code)
            ln += 4
        lines.append("fn main() {\n    let mut bad = 0u32;")
        for k, (tn, ty, eq, n) in enumerate(chunk):
            lines.append(f"    {{ let r: GenericArray<{ty}, {uty(n)}> = GenericArray::const_default(); let d: GenericArray<{ty}, {uty(n)}> = Default::default();"
                         f" if r != C_{k} || r != D_{k} || r != d || r.len() != {n} || !r.iter().all(|x| {eq}(x)) {{ println!(\"FAIL {tn} {n}\"); bad += 1; }} }}")
        lines.append('    println!("DONE bad={}", bad);\n}')
        return "\n".join(lines) + "\n", spans

    def do(ci):
        src = os.path.join(wd, f"cd_{ci}.rs")
        exe = os.path.join(wd, f"cd_{ci}")
        text, spans = text_for(chunks[ci])
        open(src, "w").write(text)
        rc, err = lib.rustc(src, exe)
        if rc != 0:
            return ("compile", ci, err, spans)
        rc, out, err2 = E.run_exe(exe)
        return ("run", ci, rc, out, err2)

    results = E.pmap(do, range(nchunks))
    bad = {}
    for r in results:
        if r[0] == "compile":
            _, ci, err, spans = r
            hit = False
            for ln, _head, _blk in E.error_locations(err, r"cd_%d\.rs" % ci):
                for (a, b, key) in spans:
                    if a <= ln <= b:
                        bad.setdefault(key, "compile-time comparison failed (const evaluation error)")
                        hit = True
            if not hit:
                print(err[-2500:])
                print(f"INFRA: const-default program {ci} does not compile")
                return None
        else:
            _, ci, rc, out, err2 = r
            if "DONE bad=" not in out:
                print(out[-1000:], err2[-1000:])
                print(f"INFRA: const-default program {ci} did not finish")
                return None
            for line in out.splitlines():
                if line.startswith("FAIL "):
                    _, tn, n = line.split()
                    bad.setdefault((tn, int(n)), "run-time const_default() differs from the const item / DEFAULT / Default::default()")
    failures = []
    for (tn, n), why in list(bad.items())[:10]:
        it = next(x for x in items if x[0] == tn and x[3] == n)
        text, _ = text_for([it])
        path = E.save_replay(root, pid, f"const_default_{tn}_{n}", "// C19 const item\n// expect: accept\n" + text)
        failures.append({"msg": f"const_default of GenericArray<{it[1]}, U{n}>: {why}", "replay": path})
    nontrivial = {(tn, n) for (tn, _, _, n) in items if n >= 2 and tn != "u8"}
    samples = [{"element": items[i][1], "N": items[i][3]} for i in (0, 70, 200, len(items) - 1)]
    return E.evidence(
        pid, tier, seed, "exploration", len(items), len(nontrivial),
        "const half: for every N in 0..=64 and 100,127,128,255,256,1000,1023,1024,2047,2048,3000,3500,4095,4096,4097,5000,6000,8192,10000,12000 and element types u8, u64, [u8;3], GenericArray<u8,U3>, P{a,b} with non-zero DEFAULT, GenericArray<P,U2>: const items C = const_default() and D = DEFAULT whose every element is compared with T::DEFAULT inside the const evaluator (length N asserted), and at run time const_default() == C == D == Default::default(). "
        "non-trivial = N >= 2 and an element type other than u8; distinct = distinct (type, N)",
        samples, {"const_items": len(items)}, exhaustive=True,
        assumptions=[], failures=failures, wall=time.time() - t0, extra={"programs": nchunks})


def replay(root, pid, path):
    lib = E.Lib(root)
    exe = os.path.join(E.workdir(root, pid), "replay_exe")
    rc, err = lib.rustc(path, exe)
    ok = rc == 0
    if ok:
        _, out, _ = E.run_exe(exe)
        print(out)
        ok = "DONE bad=0" in out
    print(err[:1500])
    if not ok:
        print(f"VIOLATION property={pid} replay={path}")
        return 1
    return 0
