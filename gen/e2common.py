"""Engine E2 helpers: build the crate from /repo as an rlib, compile generated programs with rustc, run them."""
import concurrent.futures as cf
import hashlib
import json
import os
import subprocess
import sys
import time


def env():
    e = dict(os.environ)
    e["CARGO_NET_OFFLINE"] = "true"
    e.setdefault("RUST_BACKTRACE", "0")
    return e


def repo_digest():
    repo = os.environ.get("VERIF_REPO", "/repo")
    h = hashlib.sha256()
    for base, dirs, files in sorted(os.walk(os.path.join(repo, "src"))):
        dirs.sort()
        for f in sorted(files):
            p = os.path.join(base, f)
            h.update(p.encode())
            h.update(open(p, "rb").read())
    p = os.path.join(repo, "Cargo.toml")
    if os.path.exists(p):
        h.update(open(p, "rb").read())
    return h.hexdigest()


# other build configurations of the crate: (tag, feature subset or None for the full set, release profile?)
RELEASE_FULL = ("release_full", None, True)


class Lib:
    """rlibs of generic_array (+ typenum, const_default, zeroize) built from the current /repo working tree.
    config = None: dev profile (debug assertions on), full feature set. Otherwise (tag, features, release): its own target directory,
    guarded by the same content digest as the driver uses (cargo's mtime freshness is not trusted)."""

    def __init__(self, root, config=None):
        self.root = root
        self.config = config
        hdir = os.environ.get("VERIF_HARNESS_DIR") or os.path.join(root, "harness")
        crate = os.path.join(hdir, "rlibdep")
        tdir = os.path.join(hdir, "target", "rlibdep")
        extra = []
        self.release = False
        if config is not None:
            tag, feats, release = config
            self.release = release
            tdir = os.path.join(hdir, "target", "rlibcfg", tag)
            if feats is not None:
                extra += ["--no-default-features"] + (["--features", ",".join(feats)] if feats else [])
            if release:
                extra += ["--release"]
            d = repo_digest()
            stamp = os.path.join(tdir, ".repo_digest")
            old = open(stamp).read() if os.path.exists(stamp) else None
            if old != d:
                if os.path.isdir(tdir):
                    subprocess.run(["cargo", "clean", "-p", "generic-array", "--target-dir", tdir] + (["--release"] if release else []), cwd=crate, env=env(),
                                   stdout=subprocess.DEVNULL, stderr=subprocess.DEVNULL)
                os.makedirs(tdir, exist_ok=True)
                open(stamp, "w").write(d)
        p = subprocess.run(["cargo", "build", "--message-format=json", "--target-dir", tdir] + extra, cwd=crate, env=env(),
                           stdout=subprocess.PIPE, stderr=subprocess.PIPE, text=True)
        if p.returncode != 0:
            sys.stderr.write(p.stderr[-3000:])
            raise RuntimeError("rlib build failed")
        self.externs = {}
        for line in p.stdout.splitlines():
            try:
                m = json.loads(line)
            except ValueError:
                continue
            if m.get("reason") != "compiler-artifact":
                continue
            name = m["target"]["name"].replace("-", "_")
            for f in m.get("filenames", []):
                if f.endswith(".rlib") and name in ("generic_array", "typenum", "const_default", "zeroize", "serde"):
                    self.externs[name] = f
        self.deps = os.path.join(tdir, "release" if self.release else "debug", "deps")
        if "generic_array" not in self.externs:
            raise RuntimeError("generic_array rlib not found in cargo output")

    def rustc(self, src, out=None, check_only=False, extra=(), cap="allow"):
        cmd = ["rustc", "--edition", "2021", "-L", "dependency=" + self.deps, "--cap-lints", cap]
        if self.release:
            cmd += ["-C", "debug-assertions=off", "-C", "overflow-checks=off", "-C", "opt-level=1", "-C", "debuginfo=0"]
        else:
            cmd += ["-C", "debug-assertions=on", "-C", "overflow-checks=on", "-C", "opt-level=0", "-C", "debuginfo=0"]
        for n, f in self.externs.items():
            cmd += ["--extern", f"{n}={f}"]
        if check_only:
            cmd += ["--emit=metadata", "-o", (out or src + ".rmeta")]
        else:
            cmd += ["-o", out]
        cmd += list(extra) + [src]
        p = subprocess.run(cmd, stdout=subprocess.PIPE, stderr=subprocess.PIPE, text=True, env=env())
        return p.returncode, p.stderr


def workdir(root, pid):
    d = os.path.join(os.environ.get("VERIF_WORK_ROOT") or os.path.join(root, "work"), pid, "e2")
    os.makedirs(d, exist_ok=True)
    return d


def pmap(fn, items, workers=16):
    with cf.ThreadPoolExecutor(max_workers=workers) as ex:
        return list(ex.map(fn, items))


def run_exe(path, timeout=600):
    try:
        p = subprocess.run([path], stdout=subprocess.PIPE, stderr=subprocess.PIPE, text=True, timeout=timeout, env=env())
        return p.returncode, p.stdout, p.stderr
    except subprocess.TimeoutExpired:
        return -999, "", "timeout"


def save_replay(root, pid, name, text):
    d = os.path.join(root, "replays", pid)
    os.makedirs(d, exist_ok=True)
    h = hashlib.sha1(text.encode()).hexdigest()[:16]
    path = os.path.join(d, f"{name}_{h}.rs")
    open(path, "w").write(text)
    return path


def evidence(pid, tier, seed, level, evaluations, distinct, rule, samples, classes=None, exhaustive=False, assumptions=None,
             failures=None, wall=0.0, extra=None):
    cov = {"evaluations": evaluations, "distinct_nontrivial": distinct, "rule": rule, "samples": samples[:8],
           "classes": classes or {}, "exhaustive": exhaustive}
    if extra:
        cov.update(extra)
    return {"property_id": pid, "tier": tier, "seed": seed, "level": level, "coverage": cov, "assumptions": assumptions or [],
            "wall_s": round(wall, 2), "violations": len(failures or []), "failures": failures or []}


def error_codes(stderr):
    import re
    return sorted(set(re.findall(r"error\[(E\d{4})\]", stderr)))


def error_locations(stderr, file_pat):
    """(line number, headline) for every location in a file matching `file_pat` that belongs to an *error* diagnostic.
    rustc separates diagnostics by a blank line and starts each with `error...` / `warning...` in column 0; locations inside
    warnings (unused braces and the like) say nothing about why a program was rejected and are skipped."""
    import re
    out = []
    for block in re.split(r"\n(?=(?:error|warning)[\[: (])", "\n" + stderr):
        block = block.lstrip("\n")
        if not block.startswith("error"):
            continue
        head = block.splitlines()[0] if block else "error"
        for m in re.finditer(r"(?:-->|:::) [^\n]*%s:(\d+):" % file_pat, block):
            out.append((int(m.group(1)), head, block))
    return out
