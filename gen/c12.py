"""C12 - length, thread-safety and lifetime errors are rejected at compile time.

Generated programs in accept/reject twins that differ in exactly one length, type name or lifetime; the oracle is
rustc's verdict on each program compiled against the rlib built from /repo's working tree.
"""
import os
import random
import time

import e2common as E

PID = "C12"

HEAD = """#![allow(unused, dead_code, clippy::all)]
extern crate alloc;
use generic_array::functional::*;
use generic_array::sequence::*;
use generic_array::typenum::*;
use generic_array::typenum::operator_aliases::*;
use generic_array::{arr, ArrayLength, GenericArray, GenericArrayIter, IntoArrayLength, LengthError};
use core::borrow::{Borrow, BorrowMut};
use core::convert::TryFrom;
fn use_it<T: ?Sized>(_: &T) -> usize { 0 }
"""

# error codes that mean the *template* is broken (unresolved names, syntax), never a verdict
HARNESS_FAULT = {"E0405", "E0412", "E0425", "E0432", "E0433", "E0423", "E0424", "E0428", "E0429", "E0430", "E0431", "E0434", "E0435", "E0583", "E0601", "E0658"}


class Prog:
    def __init__(self, family, template, params, expect, body):
        self.family = family
        self.template = template
        self.params = params
        self.expect = expect  # "accept" | "reject"
        self.body = body

    def text(self):
        return f"// C12 program: family={self.family} template={self.template} params={self.params}\n// expect: {self.expect}\n" + HEAD + self.body + "\n"

    def key(self):
        return (self.template, str(self.params), self.expect)


def twins(family, template, params, accept_body, reject_bodies):
    out = [Prog(family, template, params, "accept", accept_body)]
    for tag, body in reject_bodies:
        out.append(Prog(family, template, dict(params, variant=tag), "reject", body))
    return out


ELEMS = ["u8", "u32", "String", "(u8, u16)", "Box<u8>"]
FORMS = {"own": ("{}", "{}"), "ref": ("&{}", "&{}"), "mut": ("&mut {}", "&mut {}")}


def fam_lengths(rng, rounds):
    P = []
    for _ in range(rounds):
        n = rng.choice([1, 2, 3, 4, 5, 6, 7, 8, 9, 10, 11, 12, 16, 100, 1000, 1010])
        el = rng.choice(ELEMS)
        # zip, all ten forms
        for lf in ("own", "ref", "mut"):
            for rf in ("own", "ref", "mut"):
                def z(m):
                    lt = {"own": f"GenericArray<u32, U{n}>", "ref": f"&GenericArray<u32, U{n}>", "mut": f"&mut GenericArray<u32, U{n}>"}[lf]
                    rt = {"own": f"GenericArray<u32, U{m}>", "ref": f"&GenericArray<u32, U{m}>", "mut": f"&mut GenericArray<u32, U{m}>"}[rf]
                    return f"fn f(a: {lt}, b: {rt}) -> GenericArray<u32, U{n}> {{ a.zip(b, |x, y| {{ let _ = (&x, &y); 0u32 }}) }}"
                P += twins("length", f"zip_{lf}_{rf}", {"n": n}, z(n), [("rhs_plus_1", z(n + 1)), ("rhs_minus_1", z(n - 1))])
        def zb(m):
            return f"fn f(a: Box<GenericArray<u32, U{n}>>, b: Box<GenericArray<u32, U{m}>>) -> Box<GenericArray<u32, U{n}>> {{ a.zip(b, |x, y| x + y) }}"
        P += twins("length", "zip_box_box", {"n": n}, zb(n), [("rhs_plus_1", zb(n + 1))])
        # stack zip with boxed rhs is rejected whatever the lengths (documented)
        # the doc-hidden right-hand-side entry points of zip carry the same length equality
        def iz(m):
            return f"fn f(a: GenericArray<u32, U{n}>, b: GenericArray<u32, U{m}>) -> GenericArray<u32, U{n}> {{ b.inverted_zip(a, |x, y| x + y) }}"
        P += twins("length", "inverted_zip_own", {"n": n}, iz(n), [("rhs_plus_1", iz(n + 1)), ("rhs_minus_1", iz(n - 1))])
        def izr(m):
            return f"fn f(a: GenericArray<u32, U{n}>, b: &GenericArray<u32, U{m}>) -> GenericArray<u32, U{n}> {{ b.inverted_zip(a, |x, y| x + *y) }}"
        P += twins("length", "inverted_zip_ref", {"n": n}, izr(n), [("rhs_plus_1", izr(n + 1))])
        for lf, lt in (("ref", "&GenericArray<u32, U{x}>"), ("mut", "&mut GenericArray<u32, U{x}>"), ("own", "GenericArray<u32, U{x}>")):
            for rf, rt in (("own", "GenericArray<u32, U{x}>"), ("ref", "&GenericArray<u32, U{x}>"), ("box", "Box<GenericArray<u32, U{x}>>")):
                if (lf == "own") != (rf == "box") and lf == "own":
                    continue
                if rf == "box" and lf != "own":
                    continue
                def iz2(m):
                    l = lt.format(x=n) if rf != "box" else f"Box<GenericArray<u32, U{n}>>"
                    out = f"GenericArray<u32, U{n}>" if rf != "box" else f"Box<GenericArray<u32, U{n}>>"
                    return f"fn f(a: {l}, b: {rt.format(x=m)}) -> {out} {{ b.inverted_zip2(a, |x, y| {{ let _ = (&x, &y); 0u32 }}) }}"
                P += twins("length", f"inverted_zip2_{lf}_{rf}", {"n": n}, iz2(n), [("rhs_plus_1", iz2(n + 1))])
        for op in ("==", "<"):
            def c(m):
                return f"fn f(a: &GenericArray<u32, U{n}>, b: &GenericArray<u32, U{m}>) -> bool {{ a {op} b }}"
            P += twins("length", f"compare_{'eq' if op == '==' else 'lt'}", {"n": n}, c(n), [("rhs_plus_1", c(n + 1))])
        for meth in ("cmp", "partial_cmp"):
            def c2(m):
                return f"fn f(a: &GenericArray<u32, U{n}>, b: &GenericArray<u32, U{m}>) {{ let _ = a.{meth}(b); }}"
            P += twins("length", meth, {"n": n}, c2(n), [("rhs_plus_1", c2(n + 1))])
        # split
        k = rng.randint(0, n)
        for form, ty in (("own", "GenericArray<{e}, U{x}>"), ("ref", "&GenericArray<{e}, U{x}>"), ("mut", "&mut GenericArray<{e}, U{x}>")):
            def sp(kk, second):
                a = ty.format(e=el, x=n)
                h = ty.format(e=el, x=kk)
                t = ty.format(e=el, x=second)
                return f"fn f(a: {a}) {{ let (h, t): ({h}, {t}) = Split::<{el}, U{kk}>::split(a); }}"
            P += twins("length", f"split_{form}", {"n": n, "k": k, "elem": el}, sp(k, n - k),
                       [("second_plus_1", sp(k, n - k + 1)), ("pivot_past_end", sp(n + 1, 0))])
        # shorten / remove
        for meth, res in (("pop_back()", "(GenericArray<{e}, U{x}>, {e})"), ("pop_front()", "({e}, GenericArray<{e}, U{x}>)"),
                          ("remove(0)", "({e}, GenericArray<{e}, U{x}>)"), ("swap_remove(0)", "({e}, GenericArray<{e}, U{x}>)")):
            def sh(src, dst):
                return f"fn f(a: GenericArray<{el}, U{src}>) {{ let r: {res.format(e=el, x=dst)} = a.{meth}; }}"
            P += twins("length", "shorten_" + meth.split("(")[0], {"n": n, "elem": el}, sh(n, n - 1),
                       [("result_same_length", sh(n, n)), ("from_empty", f"fn f(a: GenericArray<{el}, U0>) {{ let r = a.{meth}; }}")])
        for meth in ("append", "prepend"):
            def le(dst):
                return f"fn f(a: GenericArray<{el}, U{n}>, x: {el}) -> GenericArray<{el}, U{dst}> {{ a.{meth}(x) }}"
            P += twins("length", meth, {"n": n, "elem": el}, le(n + 1), [("result_same_length", le(n)), ("result_plus_2", le(n + 2))])
        m = rng.choice([0, 1, 2, 3, 5, 8])
        def cc(dst):
            return f"fn f(a: GenericArray<{el}, U{n}>, b: GenericArray<{el}, U{m}>) -> GenericArray<{el}, U{dst}> {{ a.concat(b) }}"
        P += twins("length", "concat", {"n": n, "m": m, "elem": el}, cc(n + m), [("sum_plus_1", cc(n + m + 1))])
        # flatten / unflatten (small products)
        fn_, fm = rng.choice([(1, 1), (2, 3), (3, 2), (4, 4), (1, 7), (5, 1), (6, 6), (2, 8)])
        for form, w in (("own", "{}"), ("ref", "&{}"), ("mut", "&mut {}")):
            def fl(dst):
                src = w.format(f"GenericArray<GenericArray<{el}, U{fn_}>, U{fm}>")
                out = w.format(f"GenericArray<{el}, U{dst}>")
                return f"fn f(a: {src}) -> {out} {{ a.flatten() }}"
            P += twins("length", f"flatten_{form}", {"n": fn_, "m": fm, "elem": el}, fl(fn_ * fm), [("product_plus_1", fl(fn_ * fm + 1))])
            def un(outer):
                src = w.format(f"GenericArray<{el}, U{fn_ * fm}>")
                out = w.format(f"GenericArray<GenericArray<{el}, U{fn_}>, U{outer}>")
                return f"fn f(a: {src}) -> {out} {{ a.unflatten() }}"
            P += twins("length", f"unflatten_{form}", {"n": fn_, "m": fm, "elem": el}, un(fm), [("outer_plus_1", un(fm + 1))])
        # native arrays
        def ia(kk):
            return f"fn f(a: GenericArray<{el}, U{n}>) -> [{el}; {kk}] {{ a.into_array() }}"
        P += twins("length", "into_array", {"n": n, "elem": el}, ia(n), [("k_plus_1", ia(n + 1))])
        def fa(kk):
            return f"fn f(a: [{el}; {kk}]) -> GenericArray<{el}, U{n}> {{ GenericArray::from_array(a) }}"
        P += twins("length", "from_array", {"n": n, "elem": el}, fa(n), [("k_plus_1", fa(n + 1))])
        def fr(kk):
            return f"fn f(a: [{el}; {kk}]) -> GenericArray<{el}, U{n}> {{ a.into() }}"
        P += twins("length", "From_native", {"n": n, "elem": el}, fr(n), [("k_minus_1", fr(n - 1))])
        def into(kk):
            return f"fn f(a: GenericArray<{el}, U{n}>) -> [{el}; {kk}] {{ a.into() }}"
        P += twins("length", "Into_native", {"n": n, "elem": el}, into(n), [("k_plus_1", into(n + 1))])
        def ar(kk):
            return f"fn f(a: &GenericArray<{el}, U{n}>) -> &[{el}; {kk}] {{ a.as_ref() }}"
        P += twins("length", "AsRef_native", {"n": n, "elem": el}, ar(n), [("k_plus_1", ar(n + 1))])
        def am(kk):
            return f"fn f(a: &mut GenericArray<{el}, U{n}>) -> &mut [{el}; {kk}] {{ a.as_mut() }}"
        P += twins("length", "AsMut_native", {"n": n, "elem": el}, am(n), [("k_plus_1", am(n + 1))])
        def frn(kk):
            return f"fn f(a: &[{el}; {kk}]) -> &GenericArray<{el}, U{n}> {{ a.into() }}"
        P += twins("length", "From_ref_native", {"n": n, "elem": el}, frn(n), [("k_plus_1", frn(n + 1))])
        def frm(kk):
            return f"fn f(a: &mut [{el}; {kk}]) -> &mut GenericArray<{el}, U{n}> {{ a.into() }}"
        P += twins("length", "From_mut_native", {"n": n, "elem": el}, frm(n), [("k_plus_1", frm(n + 1))])
        for name, sig in (("from_chunks", "fn f(a: &[[{e}; {k}]]) -> &[GenericArray<{e}, U{n}>] {{ GenericArray::<{e}, U{n}>::from_chunks(a) }}"),
                          ("from_chunks_mut", "fn f(a: &mut [[{e}; {k}]]) -> &mut [GenericArray<{e}, U{n}>] {{ GenericArray::<{e}, U{n}>::from_chunks_mut(a) }}"),
                          ("into_chunks", "fn f(a: &[GenericArray<{e}, U{n}>]) -> &[[{e}; {k}]] {{ GenericArray::<{e}, U{n}>::into_chunks::<{k}>(a) }}"),
                          ("into_chunks_mut", "fn f(a: &mut [GenericArray<{e}, U{n}>]) -> &mut [[{e}; {k}]] {{ GenericArray::<{e}, U{n}>::into_chunks_mut::<{k}>(a) }}")):
            P += twins("length", name, {"n": n, "elem": el}, sig.format(e=el, n=n, k=n), [("k_plus_1", sig.format(e=el, n=n, k=n + 1)), ("k_minus_1", sig.format(e=el, n=n, k=n - 1))])
        # tuples
        ar_ = rng.randint(1, 12)
        def tup(a, nn):
            t = "(" + "".join("u8, " for _ in range(a)) + ")"
            return f"fn f(t: {t}) -> GenericArray<u8, U{nn}> {{ t.into() }}\nfn g(a: GenericArray<u8, U{nn}>) -> {t} {{ a.into() }}"
        P += twins("length", "tuple", {"arity": ar_}, tup(ar_, ar_), [("arity_plus_1", tup(ar_ + 1, ar_)), ("arity_13", tup(13, 13))])
        # arr! infers its length from the element count
        cnt = rng.randint(0, 12)
        def am_(c, nn):
            return f"fn f() -> GenericArray<u8, U{nn}> {{ arr![{', '.join(str(i) for i in range(c))}] }}"
        P += twins("length", "arr_macro_infer", {"count": cnt}, am_(cnt, cnt), [("declared_plus_1", am_(cnt, cnt + 1))])
        def am2(c, nn):
            return f"fn f() -> GenericArray<u8, U{nn}> {{ arr![7u8; {c}] }}\nfn g() -> GenericArray<u8, U{nn}> {{ arr![7u8; U{c}] }}"
        P += twins("length", "arr_macro_repeat", {"count": cnt}, am2(cnt, cnt), [("declared_plus_1", am2(cnt, cnt + 1))])
    # sealed ArrayLength
    P += twins("length", "sealed_array_length", {},
               "struct W<N: ArrayLength>(GenericArray<u8, N>);\nfn f() -> W<U5> { W(Default::default()) }",
               [("user_impl", "struct Mine;\nunsafe impl ArrayLength for Mine { type ArrayType<T> = [T; 3]; }"),
                ("user_impl_unsigned", "struct Mine;\nimpl generic_array::typenum::Unsigned for Mine { const U8: u8 = 3; const U16: u16 = 3; const U32: u32 = 3; const U64: u64 = 3; const USIZE: usize = 3; const I8: i8 = 3; const I16: i16 = 3; const I32: i32 = 3; const I64: i64 = 3; const ISIZE: isize = 3; fn to_u8() -> u8 {3} fn to_u16() -> u16 {3} fn to_u32() -> u32 {3} fn to_u64() -> u64 {3} fn to_usize() -> usize {3} fn to_i8() -> i8 {3} fn to_i16() -> i16 {3} fn to_i32() -> i32 {3} fn to_i64() -> i64 {3} fn to_isize() -> isize {3} }\nunsafe impl ArrayLength for Mine { type ArrayType<T> = [T; 3]; }")])
    # mixing stack and heap operands in zip is rejected (documented compile_fail)
    P += twins("length", "zip_stack_with_box", {},
               "fn f(a: Box<GenericArray<u32, U4>>, b: Box<GenericArray<u32, U4>>) -> Box<GenericArray<u32, U4>> { a.zip(b, |x, y| x + y) }",
               [("stack_lhs_box_rhs", "fn f(a: GenericArray<u32, U4>, b: Box<GenericArray<u32, U4>>) { let _ = a.zip(b, |x, y| x + y); }")])
    return P


AUTO = {
    # element type -> (Send, Sync, Copy, Clone)
    "u8": (True, True, True, True),
    "String": (True, True, False, True),
    "std::rc::Rc<u8>": (False, False, False, True),
    "std::cell::Cell<u8>": (True, False, False, True),
    "std::cell::RefCell<u8>": (True, False, False, True),
    "*const u8": (False, False, True, True),
    "std::sync::MutexGuard<'static, u8>": (False, True, False, False),
    "std::sync::Arc<std::cell::Cell<u8>>": (False, False, False, True),
    "&'static std::cell::Cell<u8>": (False, False, True, True),
    "std::sync::atomic::AtomicU8": (True, True, False, False),
}


def fam_auto(rng, rounds):
    P = []
    traits = ["Send", "Sync", "Copy", "Clone"]
    for el, verdicts in AUTO.items():
        for ti, tr in enumerate(traits):
            ns = [rng.choice([0, 1, 2, 3, 4, 5, 7, 8, 16, 33, 1024]) for _ in range(rounds)]
            for n in sorted(set(ns)):
                for who, ty, ok in (("array", f"GenericArray<{el}, U{n}>", verdicts[ti]),
                                    ("iter", f"GenericArrayIter<{el}, U{n}>", verdicts[ti] and tr != "Copy"),
                                    ("boxed", f"Box<GenericArray<{el}, U{n}>>", verdicts[ti] and tr != "Copy")):
                    body = f"fn needs<T: {tr}>() {{}}\nfn f() {{ needs::<{ty}>(); }}"
                    P.append(Prog("auto_trait", f"{tr}_{who}", {"elem": el, "n": n}, "accept" if ok else "reject", body))
    return P


# reference-returning APIs: (name, source type, expression over `s` (a `&SRC` or `&mut SRC`), output type, mutable?)
VIEWS = [
    ("as_slice", "GenericArray<u8, U3>", "s.as_slice()", "[u8]", False),
    ("deref", "GenericArray<u8, U3>", "&s[..]", "[u8]", False),
    ("as_ref_slice", "GenericArray<u8, U3>", "AsRef::<[u8]>::as_ref(s)", "[u8]", False),
    ("borrow", "GenericArray<u8, U3>", "Borrow::<[u8]>::borrow(s)", "[u8]", False),
    ("as_ref_native", "GenericArray<u8, U3>", "AsRef::<[u8; 3]>::as_ref(s)", "[u8; 3]", False),
    ("iter", "GenericArray<u8, U3>", "s.iter().next().unwrap()", "u8", False),
    ("into_iter_ref", "GenericArray<u8, U3>", "s.into_iter().next().unwrap()", "u8", False),
    ("from_slice", "[u8; 3]", "GenericArray::<u8, U3>::from_slice(&s[..])", "GenericArray<u8, U3>", False),
    ("try_from_slice", "[u8; 3]", "GenericArray::<u8, U3>::try_from_slice(&s[..]).unwrap()", "GenericArray<u8, U3>", False),
    ("TryFrom_slice", "[u8; 3]", "<&GenericArray<u8, U3>>::try_from(&s[..]).unwrap()", "GenericArray<u8, U3>", False),
    ("From_ref_native", "[u8; 3]", "<&GenericArray<u8, U3>>::from(s)", "GenericArray<u8, U3>", False),
    ("chunks_from_slice_chunks", "[u8; 7]", "GenericArray::<u8, U3>::chunks_from_slice(&s[..]).0", "[GenericArray<u8, U3>]", False),
    ("chunks_from_slice_rem", "[u8; 7]", "GenericArray::<u8, U3>::chunks_from_slice(&s[..]).1", "[u8]", False),
    ("slice_from_chunks", "[GenericArray<u8, U3>; 2]", "GenericArray::<u8, U3>::slice_from_chunks(&s[..])", "[u8]", False),
    ("from_chunks", "[[u8; 3]; 2]", "GenericArray::<u8, U3>::from_chunks(&s[..])", "[GenericArray<u8, U3>]", False),
    ("into_chunks", "[GenericArray<u8, U3>; 2]", "GenericArray::<u8, U3>::into_chunks::<3>(&s[..])", "[[u8; 3]]", False),
    ("split_ref_head", "GenericArray<u8, U5>", "Split::<u8, U2>::split(s).0", "GenericArray<u8, U2>", False),
    ("split_ref_tail", "GenericArray<u8, U5>", "Split::<u8, U2>::split(s).1", "GenericArray<u8, U3>", False),
    ("flatten_ref", "GenericArray<GenericArray<u8, U2>, U3>", "s.flatten()", "GenericArray<u8, U6>", False),
    ("unflatten_ref", "GenericArray<u8, U6>", "Unflatten::<u8, U6, U2>::unflatten(s)", "GenericArray<GenericArray<u8, U2>, U3>", False),
    ("iter_as_slice", "GenericArrayIter<u8, U3>", "s.as_slice()", "[u8]", False),
    ("as_mut_slice", "GenericArray<u8, U3>", "s.as_mut_slice()", "[u8]", True),
    ("deref_mut", "GenericArray<u8, U3>", "&mut s[..]", "[u8]", True),
    ("as_mut_slice_trait", "GenericArray<u8, U3>", "AsMut::<[u8]>::as_mut(s)", "[u8]", True),
    ("borrow_mut", "GenericArray<u8, U3>", "BorrowMut::<[u8]>::borrow_mut(s)", "[u8]", True),
    ("as_mut_native", "GenericArray<u8, U3>", "AsMut::<[u8; 3]>::as_mut(s)", "[u8; 3]", True),
    ("iter_mut", "GenericArray<u8, U3>", "s.iter_mut().next().unwrap()", "u8", True),
    ("from_mut_slice", "[u8; 3]", "GenericArray::<u8, U3>::from_mut_slice(&mut s[..])", "GenericArray<u8, U3>", True),
    ("try_from_mut_slice", "[u8; 3]", "GenericArray::<u8, U3>::try_from_mut_slice(&mut s[..]).unwrap()", "GenericArray<u8, U3>", True),
    ("TryFrom_mut_slice", "[u8; 3]", "<&mut GenericArray<u8, U3>>::try_from(&mut s[..]).unwrap()", "GenericArray<u8, U3>", True),
    ("From_mut_native", "[u8; 3]", "<&mut GenericArray<u8, U3>>::from(s)", "GenericArray<u8, U3>", True),
    ("chunks_from_slice_mut_chunks", "[u8; 7]", "GenericArray::<u8, U3>::chunks_from_slice_mut(&mut s[..]).0", "[GenericArray<u8, U3>]", True),
    ("chunks_from_slice_mut_rem", "[u8; 7]", "GenericArray::<u8, U3>::chunks_from_slice_mut(&mut s[..]).1", "[u8]", True),
    ("slice_from_chunks_mut", "[GenericArray<u8, U3>; 2]", "GenericArray::<u8, U3>::slice_from_chunks_mut(&mut s[..])", "[u8]", True),
    ("from_chunks_mut", "[[u8; 3]; 2]", "GenericArray::<u8, U3>::from_chunks_mut(&mut s[..])", "[GenericArray<u8, U3>]", True),
    ("into_chunks_mut", "[GenericArray<u8, U3>; 2]", "GenericArray::<u8, U3>::into_chunks_mut::<3>(&mut s[..])", "[[u8; 3]]", True),
    ("split_mut_head", "GenericArray<u8, U5>", "Split::<u8, U2>::split(s).0", "GenericArray<u8, U2>", True),
    ("split_mut_tail", "GenericArray<u8, U5>", "Split::<u8, U2>::split(s).1", "GenericArray<u8, U3>", True),
    ("flatten_mut", "GenericArray<GenericArray<u8, U2>, U3>", "s.flatten()", "GenericArray<u8, U6>", True),
    ("unflatten_mut", "GenericArray<u8, U6>", "Unflatten::<u8, U6, U2>::unflatten(s)", "GenericArray<GenericArray<u8, U2>, U3>", True),
    ("iter_as_mut_slice", "GenericArrayIter<u8, U3>", "s.as_mut_slice()", "[u8]", True),
]


def fam_lifetimes():
    P = []
    for name, src, expr, out, mutable in VIEWS:
        r = "&'a mut" if mutable else "&'a"
        rs = "&'static mut" if mutable else "&'static"
        # widening: 'a in, 'static out
        P += twins("lifetime", f"widen_{name}", {},
                   f"fn f<'a>(s: {r} {src}) -> {r} {out} {{ {expr} }}",
                   [("static_out", f"fn f<'a>(s: {r} {src}) -> {rs} {out} {{ {expr} }}")])
        # escape: the view of a local outlives it
        b = "&mut " if mutable else "&"
        mk = "let mut src: %s = unsafe { core::mem::zeroed() };" % src
        acc = f"fn f() -> usize {{ {mk} let s = {b}src; let r = {expr}; use_it(r) }}"
        rej = f"fn f() -> usize {{ let r; {{ {mk} let s = {b}src; r = {expr}; }} use_it(r) }}"
        P += twins("lifetime", f"escape_{name}", {}, acc, [("outlives_source", rej)])
        if mutable:
            # the source must not be usable while the mutable view is live
            acc = f"fn f(src: &mut {src}) -> usize {{ let a = {{ let s = &mut *src; {expr} }}; let x = use_it(a); let s = &mut *src; let b = {expr}; x + use_it(b) }}"
            rej = f"fn f(src: &mut {src}) -> usize {{ let a = {{ let s = &mut *src; {expr} }}; let s = &mut *src; let b = {expr}; use_it(a) + use_it(b) }}"
            P += twins("lifetime", f"alias_{name}", {}, acc, [("two_live_mutable_views", rej)])
            acc = f"fn f(src: &mut {src}) -> usize {{ let a = {{ let s = &mut *src; {expr} }}; let x = use_it(a); x + use_it(&*src) }}"
            rej = f"fn f(src: &mut {src}) -> usize {{ let a = {{ let s = &mut *src; {expr} }}; let y = use_it(&*src); use_it(a) + y }}"
            P += twins("lifetime", f"alias_shared_{name}", {}, acc, [("shared_use_while_mutable_view_live", rej)])
        else:
            # a shared view must keep the source borrowed: no mutation while it is live
            acc = f"fn f(src: &mut {src}) -> usize {{ let x = {{ let s = &*src; let a = {expr}; use_it(a) }}; *src = unsafe {{ core::mem::zeroed() }}; x }}"
            rej = f"fn f(src: &mut {src}) -> usize {{ let a = {{ let s = &*src; {expr} }}; *src = unsafe {{ core::mem::zeroed() }}; use_it(a) }}"
            P += twins("lifetime", f"freeze_{name}", {}, acc, [("mutated_while_view_live", rej)])
    # arr! goes through a function call, so lifetimes are not transmuted
    P += twins("lifetime", "arr_macro_refs", {},
               "fn f<'a, A>(a: &'a A) -> &'a A { arr![a][0] }",
               [("static_out", "fn f<'a, A>(a: &'a A) -> &'static A { arr![a as &A][0] }"),
                ("repeat_static_out", "fn f<'a>(a: &'a u8) -> &'static u8 { arr![a; U3][0] }"),
                ("repeat_const_static_out", "fn f<'a>(a: &'a u8) -> &'static u8 { arr![a; 3][0] }")])
    # owned values built from borrowed data keep the borrow
    P += twins("lifetime", "from_iter_refs", {},
               "fn f<'a>(v: &'a [u8; 3]) -> GenericArray<&'a u8, U3> { v.iter().collect() }",
               [("static_out", "fn f<'a>(v: &'a [u8; 3]) -> GenericArray<&'static u8, U3> { v.iter().collect() }")])
    P += twins("lifetime", "map_refs", {},
               "fn f<'a>(v: &'a GenericArray<u8, U3>) -> GenericArray<&'a u8, U3> { v.map(|x| x) }",
               [("static_out", "fn f<'a>(v: &'a GenericArray<u8, U3>) -> GenericArray<&'static u8, U3> { v.map(|x| x) }")])
    return P


def build(tier, seed):
    rng = random.Random(seed * 104729 + 5)
    rounds = 2 if tier == "quick" else 10
    P = fam_lengths(rng, rounds) + fam_auto(rng, 2 if tier == "quick" else 4) + fam_lifetimes()
    # length-generic callers stating only the documented bounds (accept only)
    from c12_generic import CANDS, REJECTS
    P += [Prog("length", name, {}, "accept", body) for name, body in CANDS.items()]
    P += [Prog("length", name, {}, "reject", body) for name, body in REJECTS.items()]
    seen = set()
    out = []
    for p in P:
        k = p.key()
        if k not in seen:
            seen.add(k)
            out.append(p)
    return out


def verdict(lib, wd, i, prog):
    src = os.path.join(wd, f"p{i}.rs")
    open(src, "w").write(prog.text())
    rc, err = lib.rustc(src, out=os.path.join(wd, f"p{i}.rmeta"), check_only=True, extra=["--crate-type=lib"])
    codes = E.error_codes(err)
    return rc, codes, err


ALLOWED = {
    "length": {"E0271", "E0277", "E0308", "E0599", "E0282", "E0283", "E0284", "E0117", "E0119", "E0200", "E0199"},
    "auto_trait": {"E0277"},
    "lifetime": {"E0499", "E0502", "E0503", "E0505", "E0506", "E0515", "E0597", "E0716", "E0521", "E0310", "E0621", "E0623", "E0700", "E0312", "E0495", "E0713"},
}


def judge(prog, rc, codes, err):
    """returns (ok, infra_fault, message)"""
    fault = [c for c in codes if c in HARNESS_FAULT]
    syntax = ("expected one of" in err or "unexpected token" in err or "mismatched closing delimiter" in err) and not codes
    if prog.expect == "accept":
        if rc == 0:
            return True, False, ""
        if fault or syntax:
            return False, True, f"template fault in accept program {prog.template}: {codes}"
        return False, False, f"correct program rejected: template {prog.template} {prog.params}: {codes} {err.strip().splitlines()[0] if err.strip() else ''}"
    if rc == 0:
        return False, False, f"incorrect program accepted: template {prog.template} {prog.params} compiles although it must be rejected"
    if fault or syntax:
        return False, True, f"template fault in reject program {prog.template}: {codes}"
    unexpected = [c for c in codes if c not in ALLOWED[prog.family]]
    if unexpected:
        # rejected, but not for a length / bound / borrow reason: the template itself is suspect
        return False, True, f"reject program {prog.template} fails with unexpected error class {unexpected}"
    return True, False, ""


def run(root, pid, tier, seed, only=None, rule=None):
    """only: set of template names - C02 and C10 re-use the accept/reject twins of the operations they are about"""
    t0 = time.time()
    lib = E.Lib(root)
    wd = E.workdir(root, pid)
    if only is not None:
        wd = os.path.join(wd, "twins")
        os.makedirs(wd, exist_ok=True)
    progs = build(tier, seed)
    if only is not None:
        progs = [p for p in progs if p.template in only or any(p.template.endswith("_" + t) for t in only)]
    results = E.pmap(lambda ip: verdict(lib, wd, ip[0], ip[1]), list(enumerate(progs)))
    failures = []
    classes = {}
    codes_seen = {}
    infra = []
    for prog, (rc, codes, err) in zip(progs, results):
        ok, fault, msg = judge(prog, rc, codes, err)
        classes[f"{prog.family}_{prog.expect}"] = classes.get(f"{prog.family}_{prog.expect}", 0) + 1
        if prog.expect == "reject" and rc != 0:
            for c in codes or (["lifetime-error"] if "lifetime may not live long enough" in err else ["other"]):
                codes_seen[c] = codes_seen.get(c, 0) + 1
        if fault:
            infra.append(msg + "\n" + err[:600])
        elif not ok and len(failures) < 12:
            path = E.save_replay(root, pid, prog.template, prog.text())
            failures.append({"msg": msg, "replay": path})
    if infra:
        print("\n".join(infra[:5]))
        print(f"INFRA: {len(infra)} generated programs are malformed (template fault, not a verdict)")
        return None
    rejects = {p.key() for p in progs if p.expect == "reject"}
    templates = sorted({p.template for p in progs})
    samples = [{"template": p.template, "params": p.params, "expect": p.expect, "program": p.body[:300]} for p in (progs[0], progs[1], progs[len(progs) // 2], progs[-2], progs[-1])]
    return E.evidence(
        pid, tier, seed, "exploration", len(progs), len(rejects),
        rule or "programs generated in accept/reject twins that differ in exactly one length, type name or lifetime, compiled (rustc --emit=metadata) against the rlib built from the working tree. "
        "Families: (1) length relations - zip in all ten receiver forms (and its doc-hidden entry points inverted_zip / inverted_zip2), ==, <, cmp, partial_cmp, split (owned/&/&mut; wrong second length; pivot past the end), pop_back/pop_front/remove/swap_remove (result length; from an empty array), append/prepend, concat, flatten/unflatten (owned/&/&mut), into_array/from_array/From/Into/AsRef/AsMut/From<&[T;N]>/From<&mut [T;N]>, from_chunks/into_chunks (+_mut), tuples of every arity incl. 13, arr! length inference (list and both repeat forms), user impl of ArrayLength (sealed), stack x boxed zip; 37 length-generic callers that state only the documented bounds of an operation (accept only: a tightened bound must not break them); "
        "(2) auto traits - Send, Sync, Copy, Clone for GenericArray, GenericArrayIter and Box<GenericArray> over ten element types (u8, String, Rc, Cell, RefCell, *const u8, MutexGuard, Arc<Cell>, &Cell, AtomicU8), expected verdict = whether the element type has the trait (iterator and Box never Copy); "
        "(3) lifetimes - for 41 reference-returning APIs: widening ('a in, 'static out), escape (view of a local outlives it), and for mutable views two live mutable views / shared use while a mutable view is live, for shared views mutation of the source while the view is live; arr! of references; collect/map of references. "
        "Oracle: a predicate over the generated parameters says accept or reject; any type-, trait- or borrow-check error counts as a rejection; unresolved names / syntax errors are template faults (exit 2). "
        "non-trivial = reject programs; distinct = distinct (template, parameters)",
        samples, classes, exhaustive=False,
        assumptions=["templates are written by hand: a loosened bound that no template probes is not found"],
        failures=failures, wall=time.time() - t0,
        extra={"templates": len(templates), "rejection_error_codes": codes_seen})


def replay(root, pid, path):
    lib = E.Lib(root)
    text = open(path).read()
    expect = "reject" if "// expect: reject" in text else "accept"
    rc, err = lib.rustc(path, out=os.path.join(E.workdir(root, pid), "replay.rmeta"), check_only=True, extra=["--crate-type=lib"])
    print(err[:1500])
    ok = (rc == 0) == (expect == "accept")
    if not ok:
        print(f"VIOLATION property={pid} replay={path}")
        return 1
    return 0
