"""C10, compile-time half of from_chunks / into_chunks: they exist only between [T; K] and GenericArray<T, N> with K = N
(shares the accept/reject twin generator of C12)."""
import c12

ONLY = {"from_chunks", "from_chunks_mut", "into_chunks", "into_chunks_mut"}
RULE = ("type-level half: accept/reject twins for from_chunks, from_chunks_mut, into_chunks, into_chunks_mut - the K = N program must compile, K = N+1 and K = N-1 must be rejected by the type checker "
        "(a regrouping that type-checks for another chunk length would not cover the same memory). non-trivial = reject programs; distinct = distinct (template, parameters)")


def run(root, pid, tier, seed):
    return c12.run(root, pid, tier, seed, only=ONLY, rule=RULE)


def replay(root, pid, path):
    return c12.replay(root, pid, path)
