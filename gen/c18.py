"""C18 - the const API evaluates at compile time without UB and agrees with run time.

Generated `const fn item_k() -> u64` bodies (one per (const fn of the crate, N, L, element type, form)); each is
  * evaluated by the compiler's const evaluator:   const V_k: u64 = item_k();
  * compared with the value python computed:       const _: () = assert!(V_k == EXPECT_k);
  * re-evaluated at run time in main():            assert_eq!(item_k(), V_k)
Reject items (a const fn documented to panic, reads of uninitialised memory) are compiled separately and must fail with E0080.
"""
import os
import random
import re
import time

import e2common as E

PID = "C18"
M64 = (1 << 64) - 1

PRELUDE = r'''#![allow(dead_code, unused_imports, unused_mut, unused_variables, clippy::all)]
use core::mem::MaybeUninit;
use generic_array::typenum::operator_aliases::{Add1, Prod, Sum};
use generic_array::typenum::*;
use generic_array::{arr, ArrayLength, GenericArray, LengthError};

const fn mix(h: u64, v: u64) -> u64 { h.wrapping_mul(31).wrapping_add(v) }
const fn v_u8(x: &u8) -> u64 { *x as u64 }
const fn v_u32(x: &u32) -> u64 { *x as u64 }
const fn v_pair(x: &(u8, u16)) -> u64 { (x.0 as u64) * 65536 + x.1 as u64 }
const fn v_unit(_: &()) -> u64 { 1 }
#[derive(Clone, Copy)]
struct CD { a: u8, b: u16 }
impl const_default::ConstDefault for CD { const DEFAULT: CD = CD { a: 0xAB, b: 0xCDEF }; }
const fn v_cd(x: &CD) -> u64 { (x.a as u64) * 65536 + x.b as u64 }
macro_rules! sum {
    ($h:ident, $s:expr, $v:ident) => {{ let s = $s; $h = mix($h, s.len() as u64); let mut i = 0; while i < s.len() { $h = mix($h, $v(&s[i])); i += 1; } }};
}
'''

TYPES = {
    "u8": ("u8", "v_u8", lambda r: r.randrange(256), lambda v: f"{v}u8", lambda v: v),
    "u32": ("u32", "v_u32", lambda r: r.randrange(1 << 32), lambda v: f"{v}u32", lambda v: v),
    "pair": ("(u8, u16)", "v_pair", lambda r: (r.randrange(256), r.randrange(65536)), lambda v: f"({v[0]}u8, {v[1]}u16)", lambda v: v[0] * 65536 + v[1]),
    "unit": ("()", "v_unit", lambda r: (), lambda v: "()", lambda v: 1),
}


def mix(h, v):
    return (h * 31 + v) & M64


def psum(h, vals, enc):
    h = mix(h, len(vals))
    for v in vals:
        h = mix(h, enc(v))
    return h


class Item:
    def __init__(self, name, tmpl, params, body, expect, decls=""):
        self.name = name
        self.tmpl = tmpl
        self.params = params
        self.body = body
        self.expect = expect
        self.decls = decls

    def code(self):
        return (f"{self.decls}\nconst fn {self.name}() -> u64 {{\n    let mut h: u64 = 7;\n{self.body}\n    h\n}}\n"
                f"const V_{self.name}: u64 = {self.name}();\nconst _: () = assert!(V_{self.name} == {self.expect}u64);\n")


def lit_array(tk, vals):
    ty, _, _, lit, _ = TYPES[tk]
    return "[" + ", ".join(lit(v) for v in vals) + "]"


def gen_items(tier, seed, lfactor=3):
    rng = random.Random(seed * 31337 + 3)
    items = []
    rejects = []
    k = [0]

    def nm():
        k[0] += 1
        return f"item_{k[0]}"

    NS = [0, 1, 2, 3, 7, 8, 16, 17, 33, 64, 100, 255, 256, 1024]
    for tk, (ty, vf, draw, lit, enc) in TYPES.items():
        for n in NS:
            if tier == "quick" and n in (100, 255) and tk in ("pair",):
                continue
            ga = f"GenericArray::<{ty}, U{n}>"
            data = [draw(rng) for _ in range(n)]
            d = lit_array(tk, data)
            # len
            items.append(Item(nm(), "len", {"T": tk, "N": n}, f"    h = mix(h, {ga}::len() as u64);", mix(7, n)))
            # from_array + as_slice + into_array
            name = nm()
            items.append(Item(name, "from_array_as_slice_into_array", {"T": tk, "N": n},
                              f"    let a: GenericArray<{ty}, U{n}> = GenericArray::from_array(D_{name});\n    sum!(h, a.as_slice(), {vf});\n    let back: [{ty}; {n}] = a.into_array();\n    sum!(h, &back, {vf});",
                              psum(psum(7, data, enc), data, enc), decls=f"const D_{name}: [{ty}; {n}] = {d};"))
            # as_mut_slice: write then read
            if n > 0:
                name = nm()
                i = rng.randrange(n)
                nv = draw(rng)
                d2 = list(data)
                d2[i] = nv
                items.append(Item(name, "as_mut_slice_write", {"T": tk, "N": n, "i": i},
                                  f"    let mut a: GenericArray<{ty}, U{n}> = GenericArray::from_array(D_{name});\n    a.as_mut_slice()[{i}] = {lit(nv)};\n    sum!(h, a.as_slice(), {vf});",
                                  psum(7, d2, enc), decls=f"const D_{name}: [{ty}; {n}] = {d};"))
            # slice -> &GenericArray, all four forms, L == N
            name = nm()
            items.append(Item(name, "from_slice", {"T": tk, "N": n},
                              f"    let s: &[{ty}] = &D_{name};\n    let r: &GenericArray<{ty}, U{n}> = GenericArray::from_slice(s);\n    sum!(h, r.as_slice(), {vf});",
                              psum(7, data, enc), decls=f"const D_{name}: [{ty}; {n}] = {d};"))
            if n > 0:
                name = nm()
                i = rng.randrange(n)
                nv = draw(rng)
                d2 = list(data)
                d2[i] = nv
                items.append(Item(name, "from_mut_slice_write", {"T": tk, "N": n, "i": i},
                                  f"    let mut d = D_{name};\n    {{ let r: &mut GenericArray<{ty}, U{n}> = GenericArray::from_mut_slice(&mut d);\n      r.as_mut_slice()[{i}] = {lit(nv)}; }}\n    sum!(h, &d, {vf});",
                                  psum(7, d2, enc), decls=f"const D_{name}: [{ty}; {n}] = {d};"))
                name = nm()
                items.append(Item(name, "try_from_mut_slice_write", {"T": tk, "N": n, "i": i},
                                  f"    let mut d = D_{name};\n    {{ match GenericArray::<{ty}, U{n}>::try_from_mut_slice(&mut d) {{ Ok(r) => {{ r.as_mut_slice()[{i}] = {lit(nv)}; h = mix(h, 1); }} Err(_) => {{ h = mix(h, 0); }} }} }}\n    sum!(h, &d, {vf});",
                                  psum(mix(7, 1), d2, enc), decls=f"const D_{name}: [{ty}; {n}] = {d};"))
            # try_from_slice / try_from_mut_slice with wrong and right lengths
            for l in sorted({0, max(n - 1, 0), n, n + 1}):
                ld = [draw(rng) for _ in range(l)]
                name = nm()
                ok = 1 if l == n else 0
                exp = mix(7, ok)
                if ok:
                    exp = psum(exp, ld, enc)
                items.append(Item(name, "try_from_slice", {"T": tk, "N": n, "L": l},
                                  f"    let s: &[{ty}] = &D_{name};\n    match GenericArray::<{ty}, U{n}>::try_from_slice(s) {{ Ok(r) => {{ h = mix(h, 1); sum!(h, r.as_slice(), {vf}); }} Err(LengthError) => {{ h = mix(h, 0); }} }}",
                                  exp, decls=f"const D_{name}: [{ty}; {l}] = {lit_array(tk, ld)};"))
                if l != n:
                    name = nm()
                    items.append(Item(name, "try_from_mut_slice_wrong_len", {"T": tk, "N": n, "L": l},
                                      f"    let mut d = D_{name};\n    match GenericArray::<{ty}, U{n}>::try_from_mut_slice(&mut d) {{ Ok(_) => {{ h = mix(h, 1); }} Err(_) => {{ h = mix(h, 0); }} }}",
                                      mix(7, 0), decls=f"const D_{name}: [{ty}; {l}] = {lit_array(tk, ld)};"))
                    rejects.append((f"from_slice_wrong_len_{tk}_{n}_{l}", f"const D: [{ty}; {l}] = {lit_array(tk, ld)};\nconst R: &GenericArray<{ty}, U{n}> = GenericArray::from_slice(&D);"))
            # chunks
            if n <= 17:
                ls = list(range(0, lfactor * n + lfactor))
            else:
                ls = sorted({0, n - 1, n, n + 1, 2 * n, lfactor * n + lfactor - 1})
            if n == 0:
                ls = [0]
                rejects.append((f"chunks_n0_nonempty_{tk}", f"const D: [{ty}; 2] = {lit_array(tk, [draw(rng), draw(rng)])};\nconst R: usize = GenericArray::<{ty}, U0>::chunks_from_slice(&D).0.len();"))
            if tier == "quick" and n > 64:
                ls = ls[:4]
            for l in ls:
                ld = [draw(rng) for _ in range(l)]
                nc = l // n if n else 0
                name = nm()
                # shared: counts, every element of every chunk, remainder, inverse
                body = (f"    let s: &[{ty}] = &D_{name};\n    let (c, r) = GenericArray::<{ty}, U{n}>::chunks_from_slice(s);\n    h = mix(h, c.len() as u64);\n"
                        f"    let mut i = 0; while i < c.len() {{ sum!(h, c[i].as_slice(), {vf}); i += 1; }}\n    sum!(h, r, {vf});\n"
                        f"    let flat = GenericArray::<{ty}, U{n}>::slice_from_chunks(c);\n    sum!(h, flat, {vf});")
                exp = mix(7, nc)
                for ci in range(nc):
                    exp = psum(exp, ld[ci * n:(ci + 1) * n], enc)
                exp = psum(exp, ld[nc * n:], enc)
                exp = psum(exp, ld[:nc * n], enc)
                if tk != "unit" and n > 0:
                    # where the parts lie inside the source (also when they are empty): the const evaluator only accepts offset_from
                    # between pointers into the same allocation
                    body += (f"\n    h = mix(h, unsafe {{ r.as_ptr().offset_from(s.as_ptr()) }} as u64);\n    h = mix(h, unsafe {{ (c.as_ptr() as *const {ty}).offset_from(s.as_ptr()) }} as u64);"
                             f"\n    h = mix(h, unsafe {{ flat.as_ptr().offset_from(s.as_ptr()) }} as u64);")
                    exp = mix(mix(mix(exp, nc * n), 0), 0)
                items.append(Item(name, "chunks_from_slice", {"T": tk, "N": n, "L": l}, body, exp, decls=f"const D_{name}: [{ty}; {l}] = {lit_array(tk, ld)};"))
                # mutable: write through the last chunk, the remainder and the flattened view
                name = nm()
                d2 = list(ld)
                writes = ""
                if nc > 0 and n > 0:
                    nv = draw(rng)
                    d2[nc * n - 1] = nv
                    writes += f"      c[{nc - 1}].as_mut_slice()[{n - 1}] = {lit(nv)};\n"
                if l - nc * n > 0:
                    nv = draw(rng)
                    d2[nc * n] = nv
                    writes += f"      r[0] = {lit(nv)};\n"
                if nc > 0 and n > 0:
                    nv = draw(rng)
                    d2[0] = nv
                    writes += f"      let flat = GenericArray::<{ty}, U{n}>::slice_from_chunks_mut(c);\n      h = mix(h, flat.len() as u64);\n      flat[0] = {lit(nv)};\n"
                body = (f"    let mut d = D_{name};\n    {{ let (c, r) = GenericArray::<{ty}, U{n}>::chunks_from_slice_mut(&mut d);\n      h = mix(h, c.len() as u64); h = mix(h, r.len() as u64);\n{writes}    }}\n    sum!(h, &d, {vf});")
                exp = mix(mix(7, nc), l - nc * n)
                if nc > 0 and n > 0:
                    exp = mix(exp, nc * n)
                exp = psum(exp, d2, enc)
                items.append(Item(name, "chunks_from_slice_mut", {"T": tk, "N": n, "L": l}, body, exp, decls=f"const D_{name}: [{ty}; {l}] = {lit_array(tk, ld)};"))
            # slices of native arrays <-> slices of GenericArray
            if n <= 64:
                m = rng.randrange(0, 4)
                rows = [[draw(rng) for _ in range(n)] for _ in range(m)]
                flat = [v for r in rows for v in r]
                name = nm()
                dl = "[" + ", ".join(lit_array(tk, r) for r in rows) + "]"
                body = (f"    let native: &[[{ty}; {n}]] = &D_{name};\n    let g = GenericArray::<{ty}, U{n}>::from_chunks(native);\n    h = mix(h, g.len() as u64);\n"
                        f"    let mut i = 0; while i < g.len() {{ sum!(h, g[i].as_slice(), {vf}); i += 1; }}\n"
                        f"    let back: &[[{ty}; {n}]] = GenericArray::<{ty}, U{n}>::into_chunks(g);\n    h = mix(h, back.len() as u64);\n    let mut i = 0; while i < back.len() {{ sum!(h, &back[i], {vf}); i += 1; }}")
                exp = mix(7, m)
                for r in rows:
                    exp = psum(exp, r, enc)
                exp = mix(exp, m)
                for r in rows:
                    exp = psum(exp, r, enc)
                items.append(Item(name, "from_chunks_into_chunks", {"T": tk, "N": n, "M": m}, body, exp, decls=f"const D_{name}: [[{ty}; {n}]; {m}] = {dl};"))
                if m > 0 and n > 0:
                    name = nm()
                    nv = draw(rng)
                    rows2 = [list(r) for r in rows]
                    rows2[m - 1][n - 1] = nv
                    nv2 = draw(rng)
                    rows2[0][0] = nv2
                    body = (f"    let mut d = D_{name};\n    {{ let g = GenericArray::<{ty}, U{n}>::from_chunks_mut(&mut d);\n      g[{m - 1}].as_mut_slice()[{n - 1}] = {lit(nv)};\n"
                            f"      let back: &mut [[{ty}; {n}]] = GenericArray::<{ty}, U{n}>::into_chunks_mut(g);\n      back[0][0] = {lit(nv2)}; }}\n"
                            f"    let mut i = 0; while i < d.len() {{ sum!(h, &d[i], {vf}); i += 1; }}")
                    exp = 7
                    for r in rows2:
                        exp = psum(exp, r, enc)
                    items.append(Item(name, "from_chunks_mut_into_chunks_mut", {"T": tk, "N": n, "M": m}, body, exp, decls=f"const D_{name}: [[{ty}; {n}]; {m}] = {dl};"))
            # uninit + assume_init
            if n <= 256:
                name = nm()
                writes = "".join(f"    a.as_mut_slice()[{i}] = MaybeUninit::new({lit(v)});\n" for i, v in enumerate(data))
                items.append(Item(name, "uninit_assume_init", {"T": tk, "N": n},
                                  f"    let mut a = GenericArray::<{ty}, U{n}>::uninit();\n{writes}    let a: GenericArray<{ty}, U{n}> = unsafe {{ GenericArray::assume_init(a) }};\n    sum!(h, a.as_slice(), {vf});",
                                  psum(7, data, enc)))
            # arr!
            if n <= 64:
                name = nm()
                items.append(Item(name, "arr_list", {"T": tk, "N": n},
                                  f"    let a: GenericArray<{ty}, U{n}> = arr![{', '.join(lit(v) for v in data)}];\n    sum!(h, a.as_slice(), {vf});", psum(7, data, enc)))
            x = draw(rng)
            name = nm()
            items.append(Item(name, "arr_repeat_type", {"T": tk, "N": n},
                              f"    let a: GenericArray<{ty}, U{n}> = arr![{lit(x)}; U{n}];\n    sum!(h, a.as_slice(), {vf});", psum(7, [x] * n, enc)))
            name = nm()
            items.append(Item(name, "arr_repeat_const", {"T": tk, "N": n},
                              f"    let a: GenericArray<{ty}, U{n}> = arr![{lit(x)}; {n}];\n    sum!(h, a.as_slice(), {vf});", psum(7, [x] * n, enc)))
    # arr![x; <type-level expression>]: lengths that have no typenum name and no Const<N> mapping
    for tk, (ty, vf, draw, lit, enc) in TYPES.items():
        for n, texpr in [(8, "Add1<U7>"), (1025, "Add1<U1024>"), (1030, "Sum<U1000, U30>"), (3000, "Prod<U1000, U3>")]:
            x = draw(rng)
            name = nm()
            items.append(Item(name, "arr_repeat_type_expression", {"T": tk, "N": n, "type": texpr},
                              f"    let a: GenericArray<{ty}, {texpr}> = arr![{lit(x)}; {texpr}];\n    sum!(h, a.as_slice(), {vf});", psum(7, [x] * n, enc)))
    # the (doc-hidden, public) by-value reinterpretation helper with a target that is more strictly aligned than the source
    for kk, (src_ty, dst_ty, lit, rd, val) in enumerate([
        ("[u8; 4]", "u32", "[1, 2, 3, 4]", "v as u64", 0x04030201),
        ("[u8; 8]", "u64", "[1, 2, 3, 4, 5, 6, 7, 8]", "v", 0x0807060504030201),
        ("GenericArray<u8, U8>", "[u32; 2]", "GenericArray::from_array([1u8, 2, 3, 4, 5, 6, 7, 8])", "(v[0] as u64) << 32 | v[1] as u64", (0x04030201 << 32) | 0x08070605),
        ("[u16; 2]", "GenericArray<u8, U4>", "[0x0201u16, 0x0403]", "{ let s = v.as_slice(); (s[0] as u64) << 8 | s[3] as u64 }", (1 << 8) | 4),
    ]):
        name = nm()
        items.append(Item(name, "const_transmute_realign", {"T": "bytes", "N": 4 + kk, "from": src_ty, "to": dst_ty},
                          f"    let v: {dst_ty} = unsafe {{ generic_array::const_transmute::<{src_ty}, {dst_ty}>({lit}) }};\n    h = mix(h, {rd});", mix(7, val)))
    # very long arrays in const position: the expansion must not cost the const evaluator a step per element (only three
    # elements are read here for the same reason)
    for tk, n, nty in [("u8", 1 << 20, "U1048576"), ("unit", 1 << 20, "U1048576"), ("u32", 1 << 19, "U524288"), ("pair", 1 << 19, "Prod<U1024, U512>")]:
        ty, vf, draw, lit, enc = TYPES[tk]
        x = draw(rng)
        name = nm()
        items.append(Item(name, "arr_repeat_type_huge", {"T": tk, "N": n},
                          f"    let a: GenericArray<{ty}, {nty}> = arr![{lit(x)}; {nty}];\n    let s = a.as_slice();\n    h = mix(h, s.len() as u64);\n    h = mix(h, {vf}(&s[0]));\n    h = mix(h, {vf}(&s[{n // 2}]));\n    h = mix(h, {vf}(&s[{n - 1}]));",
                          mix(mix(mix(mix(7, n), enc(x)), enc(x)), enc(x))))
    # macro hygiene in const position: element expressions that mention the caller's own items (macro_rules! hygiene does not
    # cover items, so a helper item of the same name inside the expansion would capture them)
    cnames = ["LEN", "N", "LENGTH", "INPUT_LENGTH", "SIZE", "COUNT", "CAP", "USIZE", "ARR", "ARRAY", "INPUT", "VALUE", "INIT", "ITEM"] + [chr(c) for c in range(ord("A"), ord("Z") + 1) if chr(c) not in "NDV"]
    fnames = ["len", "n", "f", "x", "helper", "transmute", "do_transmute", "from_array", "make", "build", "init", "value", "array", "length", "convert", "cast"]
    rng.shuffle(cnames)
    rng.shuffle(fnames)
    for gi in range(4):
        cs, fs = cnames[gi::4], fnames[gi::4]
        n = [3, 5, 8, 2][gi]
        cv = {c: rng.randrange(1 << 32) for c in cs}
        fv = {f: rng.randrange(1 << 32) for f in fs}
        decl = "".join(f"    const {c}: u32 = {v}u32;\n" for c, v in cv.items()) + "".join(f"    const fn {f}() -> u32 {{ {v}u32 }}\n" for f, v in fv.items())
        expr = " ^ ".join(cs) + " ^ " + " ^ ".join(f"{f}()" for f in fs)
        want = 0
        for v in list(cv.values()) + list(fv.values()):
            want ^= v
        lst = [c for c in cs] + [f"{f}()" for f in fs]
        lvals = list(cv.values()) + list(fv.values())
        for form, arg, ln, vals in [("type", f"{expr}; U{n}", n, [want] * n), ("const", f"{expr}; {n}", n, [want] * n), ("type_expression", f"{expr}; Sum<U{n}, U0>", n, [want] * n),
                                    ("list", ", ".join(lst), len(lst), lvals)]:
            name = nm()
            items.append(Item(name, "arr_caller_items_" + form, {"T": "u32", "N": ln, "consts": cs, "fns": fs},
                              f"{decl}    let a: GenericArray<u32, U{ln}> = arr![{arg}];\n    sum!(h, a.as_slice(), v_u32);", psum(7, vals, lambda v: v)))
    # const_default
    for n in NS:
        name = nm()
        items.append(Item(name, "const_default", {"T": "CD", "N": n},
                          f"    let a: GenericArray<CD, U{n}> = GenericArray::const_default();\n    sum!(h, a.as_slice(), v_cd);\n    let b: GenericArray<u32, U{n}> = GenericArray::const_default();\n    sum!(h, b.as_slice(), v_u32);",
                          psum(psum(7, [0xAB * 65536 + 0xCDEF] * n, lambda v: v), [0] * n, lambda v: v)))
    # every const fn of the crate on a 2^20-element array: none of them may cost the const evaluator a step per element (the
    # deny-by-default lint long_running_const_eval would stop the user's crate from compiling); three elements are read
    H = 1 << 20
    cdv = 0xAB * 65536 + 0xCDEF
    e3 = lambda v: mix(mix(mix(mix(7, H), v), v), v)
    rd3 = lambda vf: f"    h = mix(h, s.len() as u64);\n    h = mix(h, {vf}(&s[0]));\n    h = mix(h, {vf}(&s[{H // 2}]));\n    h = mix(h, {vf}(&s[{H - 1}]));"
    huge = [
        ("const_default_fn_u8", "    let a: GenericArray<u8, U1048576> = GenericArray::const_default();\n    let s = a.as_slice();\n" + rd3("v_u8"), e3(0)),
        ("const_default_fn_cd", "    let a: GenericArray<CD, U1048576> = GenericArray::const_default();\n    let s = a.as_slice();\n" + rd3("v_cd"), e3(cdv)),
        ("const_default_assoc_cd", "    let a: GenericArray<CD, U1048576> = <GenericArray<CD, U1048576> as const_default::ConstDefault>::DEFAULT;\n    let s = a.as_slice();\n" + rd3("v_cd"), e3(cdv)),
        ("from_array_into_array", "    let a = GenericArray::<u8, U1048576>::from_array([9u8; 1048576]);\n    let s = a.as_slice();\n" + rd3("v_u8") + "\n    let back: [u8; 1048576] = a.into_array();\n    h = mix(h, back[1048575] as u64);", mix(e3(9), 9)),
        ("from_slice_forms", "    let d = [5u8; 1048576];\n    let s = GenericArray::<u8, U1048576>::from_slice(&d).as_slice();\n" + rd3("v_u8")
         + "\n    match GenericArray::<u8, U1048576>::try_from_slice(&d) { Ok(r) => { h = mix(h, r.as_slice().len() as u64); } Err(_) => { h = mix(h, 0); } }", mix(e3(5), H)),
        ("from_mut_slice_write", "    let mut d = [5u8; 1048576];\n    GenericArray::<u8, U1048576>::from_mut_slice(&mut d).as_mut_slice()[1048575] = 6;\n    h = mix(h, d[1048575] as u64);\n    h = mix(h, d[0] as u64);", mix(mix(7, 6), 5)),
        ("chunks_and_back", "    let d = [3u8; 1048576];\n    let (c, r) = GenericArray::<u8, U1024>::chunks_from_slice(&d);\n    h = mix(h, c.len() as u64);\n    h = mix(h, r.len() as u64);\n    h = mix(h, c[1023].as_slice()[1023] as u64);\n    let s = GenericArray::<u8, U1024>::slice_from_chunks(c);\n" + rd3("v_u8"),
         mix(mix(mix(mix(mix(mix(mix(7, 1024), 0), 3), H), 3), 3), 3)),
        ("uninit_assume_init", "    let mut a = GenericArray::<MaybeUninit<u8>, U1048576>::uninit();\n    h = mix(h, a.as_slice().len() as u64);\n    let z: GenericArray<MaybeUninit<u8>, U1048576> = GenericArray::from_array([MaybeUninit::new(4u8); 1048576]);\n    let a: GenericArray<u8, U1048576> = unsafe { GenericArray::assume_init(z) };\n    let s = a.as_slice();\n" + rd3("v_u8"), 0),
    ]
    huge[-1] = (huge[-1][0], huge[-1][1], mix(mix(mix(mix(mix(7, H), H), 4), 4), 4))
    for tmpl, body, want in huge:
        name = nm()
        items.append(Item(name, "huge_" + tmpl, {"N": H}, body, want))
    # control: the const evaluator must reject reading uninitialised memory
    rejects.append(("assume_init_partly_written", "const R: u8 = { let mut a = GenericArray::<u8, U3>::uninit(); a.as_mut_slice()[0] = MaybeUninit::new(1); let a: GenericArray<u8, U3> = unsafe { GenericArray::assume_init(a) }; a.as_slice()[2] };"))
    rejects.append(("from_mut_slice_wrong_len", "const R: u8 = { let mut d = [1u8, 2, 3]; let r = GenericArray::<u8, U2>::from_mut_slice(&mut d); r.as_slice()[0] };"))
    return items, rejects


def program(items):
    out = [PRELUDE]
    spans = []
    line = PRELUDE.count("\n") + 1
    for it in items:
        code = it.code()
        n = code.count("\n")
        spans.append((line, line + n, it))
        out.append(code)
        line += n + 0
        # "\n".join adds one newline between parts
        line += 1
    out.append("fn main() { std::thread::Builder::new().stack_size(1 << 30).spawn(real_main).unwrap().join().unwrap(); }\nfn real_main() {\n    let mut bad = 0u32;")
    for it in items:
        out.append(f"    if {it.name}() != V_{it.name} {{ println!(\"FAIL {it.name} run time {{}} != const {{}}\", {it.name}(), V_{it.name}); bad += 1; }}")
    out.append('    println!("DONE bad={}", bad);\n}')
    return "\n".join(out) + "\n", spans


def run(root, pid, tier, seed, only=None, lfactor=3, rule=None):
    t0 = time.time()
    wd = E.workdir(root, pid)
    items, rejects = gen_items(tier, seed, lfactor)
    if only is not None:
        items = [it for it in items if it.tmpl in only]
        rejects = [r for r in rejects if r[0].startswith("chunks_")]
    nchunks = 16
    chunks = [items[i::nchunks] for i in range(nchunks)]
    failures = []
    by_name = {it.name: it for it in items}
    # the same items against the crate built in the dev profile (debug assertions on) and in the release profile (off):
    # a documented panic that only exists with debug assertions is not part of the API
    for cfg in (None, E.RELEASE_FULL):
        lib = E.Lib(root, cfg)
        tag = "" if cfg is None else "_" + cfg[0]
        label = "" if cfg is None else "[crate built in the release profile, debug assertions off] "

        def do(ci):
            src = os.path.join(wd, f"const{tag}_{ci}.rs")
            exe = os.path.join(wd, f"const{tag}_{ci}")
            text, spans = program(chunks[ci])
            open(src, "w").write(text)
            # lints capped at "warn", not silenced: the deny-by-default lint long_running_const_eval (an expansion that costs the
            # const evaluator a step per element of a very long array) must stay visible
            rc, err = lib.rustc(src, exe, cap="warn")
            if rc != 0:
                return ("compile", ci, err, spans)
            slow = []
            for m in re.finditer(r"constant evaluation is taking a long time", err):
                # the diagnostic points into the crate; the item is named by the frames / the constant that follow
                block = err[m.end():m.end() + 4000].split("\nwarning", 1)[0]
                for mm in re.finditer(r"const%s_%d\.rs:(\d+):" % (tag, ci), block):
                    ln = int(mm.group(1))
                    slow += [it.name for (a, b, it) in spans if a <= ln <= b and it.name not in slow]
            rc, out, err2 = E.run_exe(exe)
            return ("run", ci, rc, out, err2, slow)

        def do_reject(r):
            name, body = r
            src = os.path.join(wd, f"reject{tag}_{name}.rs")
            open(src, "w").write(PRELUDE + body + "\nfn main() {}\n")
            rc, err = lib.rustc(src, out=os.path.join(wd, f"reject{tag}_{name}.rmeta"), check_only=True)
            return name, body, rc, E.error_codes(err), err

        results = E.pmap(do, range(nchunks))
        rej_results = E.pmap(do_reject, rejects)
        bad_items = {}
        for r in results:
            if r[0] == "compile":
                _, ci, err, spans = r
                hit = False
                for ln, head, _blk in E.error_locations(err, r"const%s_%d\.rs" % (tag, ci)):
                    for (a, b, it) in spans:
                        if a <= ln <= b:
                            bad_items.setdefault(it.name, "the const evaluator rejected it: " + head)
                            hit = True
                if not hit:
                    print(err[-3000:])
                    print(f"INFRA: const program {ci} does not compile and the error could not be attributed to an item")
                    return None
            else:
                _, ci, rc, out, err2, slow = r
                for name in slow:
                    bad_items.setdefault(name, "the const evaluator reports 'constant evaluation is taking a long time' (lint long_running_const_eval, an error by default)")
                if "DONE bad=" not in out:
                    print(out[-1500:], err2[-1500:])
                    print(f"INFRA: const program {ci} did not finish (rc={rc})")
                    return None
                for line in out.splitlines():
                    if line.startswith("FAIL "):
                        bad_items.setdefault(line.split()[1], line)
        hdr = "" if cfg is None else "// configuration: release_full\n"
        for name, why in list(bad_items.items())[:12]:
            it = by_name[name]
            text, _ = program([it])
            path = E.save_replay(root, pid, it.tmpl, f"{hdr}// C18 item: template={it.tmpl} params={it.params}\n// expect: accept\n" + text)
            failures.append({"msg": f"{label}{it.tmpl} {it.params}: {why}", "replay": path})
        for name, body, rc, codes, err in rej_results:
            if rc == 0 or "E0080" not in codes:
                text = f"{hdr}// C18 item: {name}\n// expect: reject\n" + PRELUDE + body + "\nfn main() {}\n"
                path = E.save_replay(root, pid, "reject_" + name[:30], text)
                failures.append({"msg": f"{label}const item {name} must be rejected with E0080 but rustc said rc={rc} codes={codes}", "replay": path})
    classes = {}
    for it in items:
        classes[it.tmpl] = classes.get(it.tmpl, 0) + 1
    classes["reject_items"] = len(rejects)
    nontrivial = {(it.tmpl, str(it.params)) for it in items if it.params.get("N", 0) >= 1}
    samples = [{"template": it.tmpl, "params": it.params, "body": it.body[:300], "expected_value": it.expect} for it in (items[1], items[5], items[len(items) // 2], items[-1])]
    samples.append({"reject": rejects[0][0], "body": rejects[0][1][:200]})
    return E.evidence(
        pid, tier, seed, "exploration", 2 * (len(items) + len(rejects)), len(nontrivial) + len(rejects),
        rule or "const items generated for each const fn of the crate (len, from_array/into_array, as_slice, as_mut_slice, from_slice, try_from_slice, from_mut_slice, try_from_mut_slice, chunks_from_slice(_mut), slice_from_chunks(_mut), from_chunks(_mut), into_chunks(_mut), uninit/assume_init, arr! in its three forms (including type-level length expressions without a name), const_default; each of them once more on a 2^20-element array, where a per-element cost would trip the long_running_const_eval lint) x N in {0,1,2,3,7,8,16,17,33,64,100,255,256,1024} x slice lengths (every L in 0..=3N+2 for N <= 17, boundary L beyond; N-1, N, N+1, 0 for the fallible forms) x element types u8, u32, (u8,u16), () x shared / mutable forms with writes through the result; seeded data. "
        "Oracle: (1) the compiler's const evaluator accepts the item (it rejects out-of-bounds and dangling pointers, writes through read-only provenance, uninitialised reads, invalid values with E0080); (2) its value - a checksum over every length and every element read - equals the value python computed natively; (3) main() re-evaluates the same const fn at run time and compares with the const value. Reject items (from_slice / from_mut_slice with L != N, chunks with N = 0 and a non-empty slice, assume_init of a partly written array) are compiled separately and must fail with E0080. "
        "Everything is compiled twice: against the crate built in the dev profile (debug assertions on) and in the release profile (off). non-trivial = items with N >= 1 and all reject items; distinct = distinct (template, parameters)",
        samples, classes, exhaustive=False,
        assumptions=["this rustc's const evaluator is the UB detector; it checks the instantiations the generated items contain"],
        failures=failures, wall=time.time() - t0, extra={"programs": nchunks + len(rejects)})


def replay(root, pid, path):
    text = open(path).read()
    lib = E.Lib(root, E.RELEASE_FULL if text.startswith("// configuration: release_full") else None)
    exe = os.path.join(E.workdir(root, pid), "replay_exe")
    rc, err = lib.rustc(path, exe, cap="warn")
    if "// expect: reject" in text:
        ok = rc != 0 and "E0080" in E.error_codes(err)
    else:
        ok = rc == 0 and "constant evaluation is taking a long time" not in err
        if ok:
            rc2, out, _ = E.run_exe(exe)
            print(out)
            ok = "DONE bad=0" in out
    print(err[:1500])
    if not ok:
        print(f"VIOLATION property={pid} replay={path}")
        return 1
    return 0
