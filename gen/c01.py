"""C01 - memory layout identical to [T; N]. Generated Rust programs; oracle = the native array under the same compiler."""
import os
import random
import time

import e2common as E

PID = "C01"

FIXED = [
    # (name, decl, rust type, zero-sized?, padding-free value type?)
    ("u8", "", "u8", False, True),
    ("u16", "", "u16", False, True),
    ("u32", "", "u32", False, True),
    ("u64", "", "u64", False, True),
    ("u128", "", "u128", False, True),
    ("unit", "", "()", True, False),
    ("pair", "", "(u8, u16)", False, False),
    ("triple", "", "(u8, u64, u8)", False, False),
    ("a3", "", "[u8; 3]", False, True),
    ("a64", "", "[u16; 32]", False, True),
    ("al16", "#[repr(align(16))] #[derive(Clone, Copy)] struct Al16(u8);", "Al16", False, False),
    ("al64", "#[repr(align(64))] #[derive(Clone, Copy)] struct Al64(u8);", "Al64", False, False),
    ("z32", "#[repr(align(32))] #[derive(Clone, Copy)] struct Z32;", "Z32", True, False),
    ("packed", "#[repr(packed)] #[derive(Clone, Copy)] struct Pk(u8, u32);", "Pk", False, False),
]

NAMED = [3600] + [v for k in range(11, 64) for v in ((1 << k) - 1, 1 << k)] + [10 ** k for k in range(4, 20)]

PRELUDE = r'''
#![allow(dead_code, unused_imports, non_camel_case_types, unused_unsafe, clippy::all)]
use core::marker::PhantomData;
use core::mem::{align_of, size_of, size_of_val};
use generic_array::typenum::{self, *};
use generic_array::{ArrayLength, GenericArray, IntoArrayLength};

static mut FAILS: u32 = 0;
static mut CUR: u32 = 0;
fn fail(row: u32, what: &str, got: usize, want: usize) {
    println!("FAIL row={} {} got={} want={}", row, what, got, want);
    unsafe { FAILS += 1 };
}

#[repr(C)]
struct After<X>(u8, X);

fn chk<T, N: ArrayLength, const K: usize>(row: u32) {
    if N::USIZE != K { fail(row, "USIZE", N::USIZE, K); }
    if size_of::<GenericArray<T, N>>() != size_of::<[T; K]>() { fail(row, "size_of", size_of::<GenericArray<T, N>>(), size_of::<[T; K]>()); }
    if align_of::<GenericArray<T, N>>() != align_of::<[T; K]>() { fail(row, "align_of", align_of::<GenericArray<T, N>>(), align_of::<[T; K]>()); }
    if size_of::<After<GenericArray<T, N>>>() != size_of::<After<[T; K]>>() { fail(row, "size_of struct{u8, array}", size_of::<After<GenericArray<T, N>>>(), size_of::<After<[T; K]>>()); }
    if size_of::<Option<Box<GenericArray<T, N>>>>() != size_of::<usize>() { fail(row, "Box is not a thin pointer", 0, 0); }
}

/// needs a value: every element type used here is valid when zeroed
fn chk_addr<T, N: ArrayLength, const K: usize>(row: u32) {
    let a: GenericArray<T, N> = unsafe { core::mem::zeroed() };
    let base = &a as *const _ as usize;
    let s = a.as_slice();
    if s.len() != K { fail(row, "as_slice().len()", s.len(), K); }
    if s.as_ptr() as usize != base { fail(row, "as_slice().as_ptr() - array address", (s.as_ptr() as usize).wrapping_sub(base), 0); }
    let r = s.as_ptr_range();
    if r.end as usize != base + size_of::<GenericArray<T, N>>() { fail(row, "slice end - array end", (r.end as usize).wrapping_sub(base), size_of::<GenericArray<T, N>>()); }
    if size_of_val(s) != size_of_val(&a) { fail(row, "size_of_val(slice)", size_of_val(s), size_of_val(&a)); }
    let mut idx = [0usize, 1, 2, K / 2, K.saturating_sub(2), K.saturating_sub(1)];
    idx.sort();
    for i in idx {
        if i < K {
            let p = &s[i] as *const T as usize;
            if p != base + i * size_of::<T>() { fail(row, "address of element i", p.wrapping_sub(base), i * size_of::<T>()); }
            if p % align_of::<T>() != 0 { fail(row, "element misaligned", p % align_of::<T>(), 0); }
        }
    }
    let w: After<GenericArray<T, N>> = unsafe { core::mem::zeroed() };
    let off = (&w.1 as *const _ as usize) - (&w as *const _ as usize);
    let w2: After<[T; K]> = unsafe { core::mem::zeroed() };
    let off2 = (&w2.1 as *const _ as usize) - (&w2 as *const _ as usize);
    if off != off2 { fail(row, "field offset after a u8", off, off2); }
    core::mem::forget(w);
    core::mem::forget(w2);
    core::mem::forget(a);
}

trait Pat: Copy + PartialEq { fn pat(i: usize) -> Self; }
impl Pat for u8 { fn pat(i: usize) -> Self { (i * 7 + 3) as u8 } }
impl Pat for u16 { fn pat(i: usize) -> Self { (i * 257 + 3) as u16 } }
impl Pat for u32 { fn pat(i: usize) -> Self { (i as u32).wrapping_mul(0x01010101).wrapping_add(0x11223344) } }
impl Pat for u64 { fn pat(i: usize) -> Self { (i as u64).wrapping_mul(0x0101010101010101).wrapping_add(0x1122334455667788) } }
impl Pat for u128 { fn pat(i: usize) -> Self { (i as u128).wrapping_mul(0x0101010101010101_0101010101010101).wrapping_add(77) } }
impl Pat for [u8; 3] { fn pat(i: usize) -> Self { [i as u8, (i >> 8) as u8 ^ 0x55, 0xEE] } }
impl Pat for [u16; 32] { fn pat(i: usize) -> Self { let mut a = [0u16; 32]; let mut k = 0; while k < 32 { a[k] = (i * 32 + k) as u16; k += 1; } a } }

/// by-value and by-reference reinterpretation as the native array: three independent read paths
fn chk_val<T: Pat, N: ArrayLength, const K: usize>(row: u32)
where
    typenum::Const<K>: IntoArrayLength<ArrayLength = N>,
{
    let mut a: GenericArray<T, N> = unsafe { core::mem::zeroed() };
    for (i, x) in a.as_mut_slice().iter_mut().enumerate() { *x = T::pat(i); }
    {
        let r: &[T; K] = a.as_ref();
        if r.as_ptr() as usize != &a as *const _ as usize { fail(row, "AsRef<[T;N]> address", 0, 1); }
        for i in 0..K { if r[i] != T::pat(i) { fail(row, "AsRef<[T;N]> element", i, i); break; } }
    }
    for i in 0..K { if a[i] != T::pat(i) { fail(row, "index element", i, i); break; } }
    let native: [T; K] = a.into_array();
    for i in 0..K { if native[i] != T::pat(i) { fail(row, "into_array element", i, i); break; } }
    let back: GenericArray<T, N> = GenericArray::from_array(native);
    for i in 0..K { if back.as_slice()[i] != T::pat(i) { fail(row, "from_array element", i, i); break; } }
}

#[derive(Clone, Copy, PartialEq, Debug)]
struct CD { a: u8, b: u16 }
impl const_default::ConstDefault for CD { const DEFAULT: CD = CD { a: 0xAB, b: 0xCDEF }; }

/// arrays built field by field (ConstDefault), read back through the slice view
fn chk_cd<N: ArrayLength, const K: usize>(row: u32)
where
    GenericArray<CD, N>: const_default::ConstDefault,
{
    let a: GenericArray<CD, N> = <GenericArray<CD, N> as const_default::ConstDefault>::DEFAULT;
    let s = a.as_slice();
    if s.len() != K { fail(row, "const default len", s.len(), K); }
    for i in 0..K { if s[i] != (CD { a: 0xAB, b: 0xCDEF }) { fail(row, "field-built array read through the slice view", i, i); break; } }
}
'''


def ubits(k, lead=0):
    """typenum type expression for the number k from its binary digits; `lead` > 0 puts that many zero digits in front - a
    spelling no typenum alias or arithmetic produces, but a legal `ArrayLength` (every `UInt<N: ArrayLength, B>` is one)"""
    s = "UTerm"
    for _ in range(lead):
        s = f"UInt<{s}, B0>"
    if k == 0:
        return s
    for ch in bin(k)[2:]:
        s = f"UInt<{s}, B{ch}>"
    return s


class TypeGen:
    """random element types, sound by construction (all valid when zeroed; no align type inside a packed one)"""

    def __init__(self, rng):
        self.rng = rng
        self.decls = []
        self.n = 0

    PRIMS = ["u8", "u16", "u32", "u64", "u128", "i8", "i32", "f32", "f64", "bool", "()", "usize"]

    def prim(self):
        return self.rng.choice(self.PRIMS)

    def simple(self, depth=0):
        r = self.rng.random()
        if r < 0.45 or depth > 1:
            return self.prim(), False
        if r < 0.6:
            n = self.rng.randint(0, 5)
            t, _ = self.simple(depth + 1)
            return f"[{t}; {n}]", False
        if r < 0.8:
            k = self.rng.randint(1, 3)
            return "(" + "".join(self.simple(depth + 1)[0] + ", " for _ in range(k)) + ")", False
        if r < 0.9:
            return "PhantomData<u64>", False
        return "[u64; 0]", False

    def gen(self, depth=0):
        """returns (type expression, is certainly zero-sized)"""
        r = self.rng.random()
        if r < 0.3:
            t, _ = self.simple()
            return t, t in ("()", "PhantomData<u64>", "[u64; 0]")
        if r < 0.45 and depth == 0:
            inner, z = self.gen(depth + 1)
            m = self.rng.randint(0, 9)
            return f"GenericArray<{inner}, U{m}>", z or m == 0
        # struct
        self.n += 1
        name = f"S{self.n}"
        reprs = ["", "#[repr(C)]", "#[repr(packed)]", "#[repr(packed(2))]", "#[repr(C, packed(4))]", "#[repr(align(2))]", "#[repr(align(8))]",
                 "#[repr(align(16))]", "#[repr(align(32))]", "#[repr(align(64))]", "#[repr(C, align(16))]"]
        rp = self.rng.choice(reprs)
        nf = self.rng.randint(0, 4)
        fields = []
        for _ in range(nf):
            if "packed" in rp or depth > 0:
                fields.append(self.simple(1)[0])
            else:
                fields.append(self.gen(depth + 1)[0])
        self.decls.append(f"{rp} struct {name}({', '.join(fields)});")
        return name, False if nf else True


def build_rows(tier, seed):
    rng = random.Random(seed * 7919 + 17)
    rows = []  # (type expr, N type expr, K, flags)
    # (a) fixed table, enumerated completely
    for (name, _decl, ty, zst, val) in FIXED:
        for n in range(0, 1025):
            flags = {"addr": True, "val": val, "cls": "table"}
            rows.append((ty, f"U{n}", n, flags))
        for n in NAMED:
            if zst or n * 64 < (1 << 60):
                rows.append((ty, f"U{n}", n, {"addr": False, "val": False, "cls": "named"}))
    for n in list(range(0, 65)) + [100, 127, 128, 255, 256, 1000, 1023, 1024]:
        rows.append(("CD", f"U{n}", n, {"cd": True, "cls": "const_default_built"}))
    # (a') the same lengths spelled with leading zero digits (distinct storage shapes of the same size)
    for (name, _decl, ty, zst, val) in FIXED:
        for n in list(range(0, 18)) + [31, 32, 33, 64, 255, 256, 1000, 1024]:
            for lead in (1, 2, 3):
                rows.append((ty, ubits(n, lead), n, {"addr": True, "val": False, "cls": "leading_zero_digits"}))
    for n in list(range(0, 18)) + [64, 255, 1000]:
        for lead in (1, 2):
            rows.append(("CD", ubits(n, lead), n, {"cd": True, "cls": "const_default_built_leading_zero_digits"}))
    # (b) random element types x random digit strings
    tg = TypeGen(rng)
    count = 1000 if tier == "quick" else 8000
    for _ in range(count):
        ty, zst = tg.gen()
        depth = rng.choice([rng.randint(0, 11), rng.randint(0, 62)])
        k = rng.getrandbits(depth) | (1 << depth) if depth > 0 and rng.random() < 0.95 else rng.getrandbits(max(depth, 1))
        if not zst and k >= (1 << 40):
            k = k >> (k.bit_length() - 40)
        if k >= (1 << 63):
            k = (1 << 63) - 1
        use_bits = rng.random() < 0.8 or k > 1024
        lead = rng.choice([1, 1, 2, 5]) if use_bits and k.bit_length() <= 58 and rng.random() < 0.15 else 0
        nty = ubits(k, lead) if use_bits else f"U{k}"
        rows.append((ty, nty, k, {"addr": k <= 600, "val": False, "cls": "random"}))
    return rows, tg.decls


def emit(rows, decls, row_ids):
    out = [PRELUDE]
    for (_n, d, *_rest) in FIXED:
        if d:
            out.append(d)
    out.extend(decls)
    out.append("fn main() {")
    out.append('    std::panic::set_hook(Box::new(|info| { println!("FAIL row={} panic: {}", unsafe { CUR }, info.to_string().replace(\'\\n\', " ")); }));')
    for rid in row_ids:
        ty, nty, k, fl = rows[rid]
        out.append(f"    unsafe {{ CUR = {rid}; }}")
        if fl.get("cd"):
            out.append(f"    chk_cd::<{nty}, {k}>({rid});")
            continue
        out.append(f"    chk::<{ty}, {nty}, {k}>({rid});")
        if fl.get("addr"):
            out.append(f"    chk_addr::<{ty}, {nty}, {k}>({rid});")
        if fl.get("val") and k <= 1024:
            out.append(f"    chk_val::<{ty}, {nty}, {k}>({rid});")
    out.append('    println!("DONE fails={}", unsafe { FAILS });')
    out.append("}")
    return "\n".join(out) + "\n"


# other build configurations of the crate in which the layout must be the same: the release profile (cfg(debug_assertions) off) and
# feature subsets (the full set is the default configuration of every other check)
ALL_FEATURES = ["alloc", "internals", "serde", "zeroize", "const-default"]
CONFIGS = ([("release_full", None, True), ("release_none", [], True), ("none", [], False), ("zeroize_serde_constdefault", ["zeroize", "serde", "const-default"], False),
            ("faster_hex", ["faster-hex"], False)]
           + [("only_" + f.replace("-", "_"), [f], False) for f in ALL_FEATURES]
           + [("without_" + f.replace("-", "_"), [g for g in ALL_FEATURES if g != f], False) for f in ALL_FEATURES])
CONFIG_NS = [0, 1, 2, 3, 4, 5, 7, 8, 15, 16, 17, 31, 32, 33, 64, 100, 255, 256, 1000, 1024]


def run_configs(root, wd, failures):
    """the reduced table (20 lengths x 14 element layouts) compiled against the crate built in each other configuration"""
    rows = []
    for (name, _decl, ty, zst, val) in FIXED:
        for n in CONFIG_NS:
            rows.append((ty, f"U{n}", n, {"addr": True, "val": val, "cls": "config"}))
    text = emit(rows, [], list(range(len(rows))))

    def do(cfg):
        try:
            lib = E.Lib(root, cfg)
        except RuntimeError as ex:
            return (cfg, "build", str(ex))
        src = os.path.join(wd, f"cfg_{cfg[0]}.rs")
        exe = os.path.join(wd, f"cfg_{cfg[0]}")
        open(src, "w").write(text)
        rc, err = lib.rustc(src, exe)
        if rc != 0:
            return (cfg, "compile", err)
        rc, out, err = E.run_exe(exe)
        return (cfg, "run", out, err, rc)

    per = {}
    for r in E.pmap(do, CONFIGS):
        cfg = r[0]
        if r[1] in ("build", "compile"):
            print(r[2][-2500:])
            print(f"INFRA: configuration {cfg[0]}: the crate or the layout program does not build")
            return None
        out = r[2]
        if "DONE fails=" not in out and "FAIL row=" not in out:
            print(out[-1500:], r[3][-1500:])
            print(f"INFRA: layout program for configuration {cfg[0]} did not finish")
            return None
        seen = set()
        for line in out.splitlines():
            if line.startswith("FAIL row="):
                rid = int(line.split()[1].split("=")[1])
                if rid in seen or len([f for f in failures if cfg[0] in f["msg"]]) >= 2:
                    continue
                seen.add(rid)
                ty, nty, k, fl = rows[rid]
                hdr = f"// C01 configuration: {cfg[0]} features={cfg[1]} release={cfg[2]}\n"
                path = E.save_replay(root, PID, "layout_cfg_" + cfg[0], hdr + emit(rows, [], [rid]))
                failures.append({"msg": f"[configuration {cfg[0]}: features={'full' if cfg[1] is None else cfg[1]}, {'release' if cfg[2] else 'dev'} profile] GenericArray<{ty}, {nty}> (N = {k}) vs [{ty}; {k}]: {line}", "replay": path})
        per["config:" + cfg[0]] = len(rows)
    return per


def run(root, pid, tier, seed):
    t0 = time.time()
    lib = E.Lib(root)
    wd = E.workdir(root, pid)
    rows, decls = build_rows(tier, seed)
    nchunks = 16
    chunks = [list(range(i, len(rows), nchunks)) for i in range(nchunks)]

    def do(ci):
        src = os.path.join(wd, f"layout_{ci}.rs")
        exe = os.path.join(wd, f"layout_{ci}")
        open(src, "w").write(emit(rows, decls, chunks[ci]))
        rc, err = lib.rustc(src, exe)
        if rc != 0:
            return ("compile", ci, err)
        rc, out, err = E.run_exe(exe)
        return ("run", ci, rc, out, err)

    results = E.pmap(do, range(nchunks))
    failures = []
    failed_rows = set()
    for r in results:
        if r[0] == "compile":
            print(r[2][-3000:])
            print(f"INFRA: generated layout program {r[1]} does not compile")
            return None
        _, ci, rc, out, err = r
        if "DONE fails=" not in out and "FAIL row=" not in out:
            print(out[-2000:], err[-2000:])
            print(f"INFRA: layout program {ci} did not finish (rc={rc})")
            return None
        for line in out.splitlines():
            if line.startswith("FAIL row="):
                rid = int(line.split()[1].split("=")[1])
                if rid not in failed_rows and len(failures) < 12:
                    ty, nty, k, fl = rows[rid]
                    text = emit(rows, decls, [rid])
                    path = E.save_replay(root, pid, "layout", text)
                    failures.append({"msg": f"GenericArray<{ty}, {nty}> (N = {k}) vs [{ty}; {k}]: {line}", "replay": path})
                failed_rows.add(rid)
    per_cfg = run_configs(root, wd, failures)
    if per_cfg is None:
        return None
    classes = dict(per_cfg)
    nontrivial = set()
    for (ty, nty, k, fl) in rows:
        classes[fl["cls"]] = classes.get(fl["cls"], 0) + 1
        if ty not in ("u8", "u16", "u32", "u64") or k not in (1, 2, 4, 8):
            nontrivial.add((ty, nty))
    samples = [{"element": rows[i][0], "length_type": rows[i][1][:120], "N": rows[i][2], "checks": sorted(k for k, v in rows[i][3].items() if v is True)}
               for i in (0, 17, len(rows) // 2, len(rows) - 3, len(rows) - 2, len(rows) - 1)]
    return E.evidence(
        pid, tier, seed, "exploration", len(rows) + sum(per_cfg.values()), len(nontrivial),
        "rows = (element type, type-level length) compiled into generated Rust programs. Table, enumerated completely: every N in 0..=1024 x 14 element layouts (u8..u128, (), padded tuples, [u8;3], 64-byte array, align(16), align(64), aligned zero-sized type, packed struct) plus the 123 typenum constants above 1024 (2^k, 2^k-1, 10^k, 3600; up to 2^63 for zero-sized elements, N*64 < 2^60 otherwise); ConstDefault-built arrays for 73 lengths read back through the slice view; 26 lengths x 14 layouts spelled with one to three leading zero digits (legal length types no typenum alias produces); random rows: element types from a grammar (primitives, tuples, arrays, structs under repr(Rust|C|packed|align), PhantomData, [u64;0], nested GenericArray) x random binary digit strings to depth 62 written as UInt<...> types. "
        "Oracle: the native array [T; N] under the same compiler: N::USIZE, size_of, align_of, size of struct{u8, array}, field offset after a u8, as_slice pointer range == the array's own extent, address of element i == base + i*size_of::<T>() and aligned, and for padding-free types three value read paths (AsRef<[T;N]>, indexing, into_array/from_array). "
        "Configurations: a reduced table (20 lengths x the 14 element layouts, all checks) is compiled against the crate built in 15 other configurations - release profile (cfg(debug_assertions) off) with the full and the empty feature set, no features, every single feature, the full set minus each feature, zeroize+serde+const-default without alloc, faster-hex. "
        "non-trivial = T not a plain u8/u16/u32/u64 or N not in {1,2,4,8}; distinct = distinct (element type, length type)",
        samples, classes, exhaustive=False,
        assumptions=["layout facts are those of this rustc on x86_64; the table part is complete, the random part a sample"],
        failures=failures, wall=time.time() - t0, extra={"programs": nchunks})


def replay(root, pid, path):
    cfg = None
    first = open(path).readline()
    if first.startswith("// C01 configuration: "):
        tag = first.split()[3]
        cfg = next((c for c in CONFIGS if c[0] == tag), None)
    lib = E.Lib(root, cfg)
    exe = os.path.join(E.workdir(root, pid), "replay_exe")
    rc, err = lib.rustc(path, exe)
    if rc != 0:
        print(err[-2000:])
        print("INFRA: replay program does not compile")
        return 2
    rc, out, err = E.run_exe(exe)
    print(out)
    if "FAIL row=" in out:
        print(f"VIOLATION property={pid} replay={path}")
        return 1
    return 0 if "DONE" in out else 2
