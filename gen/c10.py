"""C10, const half: the chunk functions evaluated inside the compiler's const evaluator (shares the item generator of C18)."""
import c18

ONLY = {"chunks_from_slice", "chunks_from_slice_mut", "from_chunks_into_chunks", "from_chunks_mut_into_chunks_mut"}
RULE = ("const half: const items for chunks_from_slice / chunks_from_slice_mut (+ slice_from_chunks(_mut) as inverse) with every L in 0..=4N+3 for N in {0,1,2,3,7,8,16,17} and boundary L for N up to 1024, "
        "and from_chunks / into_chunks (+_mut), element types u8, u32, (u8,u16), (); each item reads every element of every chunk and of the remainder inside the const evaluator - an out-of-bounds or misaligned slice is a hard E0080 error - "
        "asserts a checksum over counts and elements against the value computed natively in python, and is re-evaluated at run time; N = 0 with a non-empty slice must be rejected. "
        "Everything is compiled twice: against the crate built in the dev profile and in the release profile (debug assertions off). non-trivial = items with N >= 1; distinct = distinct (template, parameters)")


def run(root, pid, tier, seed):
    return c18.run(root, pid, tier, seed, only=ONLY, lfactor=4, rule=RULE)


def replay(root, pid, path):
    return c18.replay(root, pid, path)
