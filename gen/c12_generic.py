"""C12: generic accept programs - length-generic callers that state only the documented bounds of an operation must keep compiling
(a tightened bound breaks correct programs although every call with concrete lengths still type-checks). Each was checked to
compile on the unchanged tree."""
CANDS = {
"generic_split_own": "fn f<T, N, K>(a: GenericArray<T, N>) -> (GenericArray<T, K>, GenericArray<T, Diff<N, K>>) where N: ArrayLength + core::ops::Sub<K>, K: ArrayLength, Diff<N, K>: ArrayLength { a.split() }",
"generic_split_ref": "fn f<T, N, K>(a: &GenericArray<T, N>) -> (&GenericArray<T, K>, &GenericArray<T, Diff<N, K>>) where N: ArrayLength + core::ops::Sub<K>, K: ArrayLength, Diff<N, K>: ArrayLength { a.split() }",
"generic_split_mut": "fn f<T, N, K>(a: &mut GenericArray<T, N>) -> (&mut GenericArray<T, K>, &mut GenericArray<T, Diff<N, K>>) where N: ArrayLength + core::ops::Sub<K>, K: ArrayLength, Diff<N, K>: ArrayLength { a.split() }",
"generic_concat": "fn f<T, N, M>(a: GenericArray<T, N>, b: GenericArray<T, M>) -> GenericArray<T, Sum<N, M>> where N: ArrayLength + core::ops::Add<M>, M: ArrayLength, Sum<N, M>: ArrayLength { a.concat(b) }",
"generic_append": "fn f<T, N>(a: GenericArray<T, N>, x: T) -> GenericArray<T, Add1<N>> where N: ArrayLength + core::ops::Add<B1>, Add1<N>: ArrayLength + core::ops::Sub<B1, Output = N> { a.append(x) }",
"generic_prepend": "fn f<T, N>(a: GenericArray<T, N>, x: T) -> GenericArray<T, Add1<N>> where N: ArrayLength + core::ops::Add<B1>, Add1<N>: ArrayLength + core::ops::Sub<B1, Output = N> { a.prepend(x) }",
"generic_pop_back": "fn f<T, N>(a: GenericArray<T, N>) -> (GenericArray<T, Sub1<N>>, T) where N: ArrayLength + core::ops::Sub<B1>, Sub1<N>: ArrayLength + core::ops::Add<B1, Output = N> { a.pop_back() }",
"generic_pop_front": "fn f<T, N>(a: GenericArray<T, N>) -> (T, GenericArray<T, Sub1<N>>) where N: ArrayLength + core::ops::Sub<B1>, Sub1<N>: ArrayLength + core::ops::Add<B1, Output = N> { a.pop_front() }",
"generic_remove": "fn f<T, N>(a: GenericArray<T, N>, i: usize) -> (T, GenericArray<T, Sub1<N>>) where N: ArrayLength + core::ops::Sub<B1>, Sub1<N>: ArrayLength { a.remove(i) }",
"generic_swap_remove": "fn f<T, N>(a: GenericArray<T, N>, i: usize) -> (T, GenericArray<T, Sub1<N>>) where N: ArrayLength + core::ops::Sub<B1>, Sub1<N>: ArrayLength { a.swap_remove(i) }",
"generic_zip": "fn f<A, B, N: ArrayLength>(a: GenericArray<A, N>, b: GenericArray<B, N>) -> GenericArray<(A, B), N> { a.zip(b, |x, y| (x, y)) }",
"generic_zip_ref": "fn f<'a, A, B, N: ArrayLength>(a: &'a GenericArray<A, N>, b: &'a GenericArray<B, N>) -> GenericArray<(&'a A, &'a B), N> { a.zip(b, |x, y| (x, y)) }",
"generic_map": "fn f<A, N: ArrayLength>(a: GenericArray<A, N>) -> GenericArray<Option<A>, N> { a.map(Some) }",
"generic_map_ref": "fn f<A: Clone, N: ArrayLength>(a: &GenericArray<A, N>) -> GenericArray<A, N> { a.map(|x| x.clone()) }",
"generic_fold": "fn f<N: ArrayLength>(a: GenericArray<u32, N>) -> u32 { a.fold(0, |s, x| s + x) }",
"generic_generate": "fn f<N: ArrayLength>() -> GenericArray<usize, N> { GenericArray::generate(|i| i) }",
"generic_flatten": "fn f<T, N, M>(a: GenericArray<GenericArray<T, N>, M>) -> GenericArray<T, Prod<N, M>> where N: ArrayLength + core::ops::Mul<M>, M: ArrayLength, Prod<N, M>: ArrayLength { a.flatten() }",
"generic_flatten_ref": "fn f<T, N, M>(a: &GenericArray<GenericArray<T, N>, M>) -> &GenericArray<T, Prod<N, M>> where N: ArrayLength + core::ops::Mul<M>, M: ArrayLength, Prod<N, M>: ArrayLength { a.flatten() }",
"generic_unflatten": "fn f<T, NM, N>(a: GenericArray<T, NM>) -> GenericArray<GenericArray<T, N>, Quot<NM, N>> where NM: ArrayLength + core::ops::Div<N>, N: ArrayLength, Quot<NM, N>: ArrayLength { a.unflatten() }",
"generic_unflatten_ref": "fn f<T, NM, N>(a: &GenericArray<T, NM>) -> &GenericArray<GenericArray<T, N>, Quot<NM, N>> where NM: ArrayLength + core::ops::Div<N>, N: ArrayLength, Quot<NM, N>: ArrayLength { a.unflatten() }",
"generic_into_array": "fn f<T, const K: usize>(a: GenericArray<T, generic_array::ConstArrayLength<K>>) -> [T; K] where Const<K>: IntoArrayLength { a.into_array() }",
"generic_from_array": "fn f<T, const K: usize>(a: [T; K]) -> GenericArray<T, generic_array::ConstArrayLength<K>> where Const<K>: IntoArrayLength { GenericArray::from_array(a) }",
"generic_from_iter": "fn f<T, N: ArrayLength, I: IntoIterator<Item = T>>(i: I) -> Result<GenericArray<T, N>, LengthError> { GenericArray::try_from_iter(i) }",
"generic_collect": "fn f<T, N: ArrayLength, I: Iterator<Item = T>>(i: I) -> GenericArray<T, N> { i.collect() }",
"generic_into_iter": "fn f<T, N: ArrayLength>(a: GenericArray<T, N>) -> Vec<T> { a.into_iter().rev().collect() }",
"generic_as_slice": "fn f<T, N: ArrayLength>(a: &GenericArray<T, N>) -> &[T] { a.as_slice() }",
"generic_from_slice": "fn f<T, N: ArrayLength>(a: &[T]) -> &GenericArray<T, N> { GenericArray::from_slice(a) }",
"generic_try_from_slice": "fn f<'a, T, N: ArrayLength>(a: &'a [T]) -> Result<&'a GenericArray<T, N>, LengthError> { <&GenericArray<T, N>>::try_from(a) }",
"generic_chunks": "fn f<T, N: ArrayLength>(a: &[T]) -> (&[GenericArray<T, N>], &[T]) { GenericArray::chunks_from_slice(a) }",
"generic_clone_default_eq": "fn f<T: Clone + Default + PartialEq + core::fmt::Debug + core::hash::Hash, N: ArrayLength>(a: &GenericArray<T, N>) -> bool { let b = a.clone(); let d = GenericArray::<T, N>::default(); let _ = format!(\"{:?}\", b); let mut h = std::collections::hash_map::DefaultHasher::new(); core::hash::Hash::hash(&b, &mut h); b == *a && d != b }",
"generic_ord": "fn f<T: core::cmp::Ord, N: ArrayLength>(a: &GenericArray<T, N>, b: &GenericArray<T, N>) -> bool { a <= b && a.cmp(b) == core::cmp::Ordering::Less && a.partial_cmp(b).is_some() }",
"generic_box": "fn f<T, N: ArrayLength>(a: GenericArray<T, N>) -> Vec<T> { let b: Box<GenericArray<T, N>> = Box::new(a); let v = b.into_vec(); let b2 = GenericArray::<T, N>::try_from_vec(v).ok().unwrap(); b2.into_boxed_slice().into_vec() }",
"generic_boxed_generate": "fn f<N: ArrayLength>() -> Box<GenericArray<u8, N>> { Box::<GenericArray<u8, N>>::generate(|i| i as u8) }",
"generic_lowerhex": "fn f<N: ArrayLength>(a: &GenericArray<u8, N>) -> String where N: core::ops::Add<N>, Sum<N, N>: ArrayLength { format!(\"{:x}{:X}\", a, a) }",
"generic_send_sync": "fn f<T: Send + Sync, N: ArrayLength>(a: GenericArray<T, N>) { fn need<X: Send + Sync>(_: X) {} need(a) }",
"generic_iter_send": "fn f<T: Send + Sync, N: ArrayLength>(a: GenericArray<T, N>) { fn need<X: Send + Sync>(_: X) {} need(a.into_iter()) }",
"generic_copy": "fn f<T: Copy, N: ArrayLength>(a: GenericArray<T, N>) -> (GenericArray<T, N>, GenericArray<T, N>) where N::ArrayType<T>: Copy { (a, a) }",
}

# correct programs whose right-hand side is inferred from the comparison: a second, looser PartialEq impl would make them ambiguous
CANDS.update({
"infer_eq_default": "fn f(a: GenericArray<u32, U3>) -> bool { a == Default::default() }",
"infer_eq_into": "fn f(a: GenericArray<u8, U3>) -> bool { a == [1u8, 2, 3].into() }",
"infer_eq_collect": "fn f(a: GenericArray<u8, U3>) -> bool { a == (0u8..3).collect() }",
"infer_ne_generate": "fn f(a: GenericArray<usize, U4>) -> bool { a != GenericArray::generate(|i| i) }",
"infer_partial_cmp": "fn f(a: GenericArray<u8, U2>) -> bool { a < Default::default() && a.partial_cmp(&[1u8, 2].into()).is_some() }",
})
# programs that must be rejected whatever else changes: an array compared with a native array of another length
REJECTS = {
"native_eq_longer": "fn f(a: GenericArray<u8, U3>) -> bool { a == [1u8, 2, 3, 4] }",
"native_eq_shorter": "fn f(a: GenericArray<u8, U3>) -> bool { [1u8, 2] == a }",
"native_ne_longer": "fn f(a: &GenericArray<String, U2>, b: &[String; 3]) -> bool { a != b }",
"native_lt_longer": "fn f(a: GenericArray<u8, U3>) -> bool { a < [1u8, 2, 3, 4] }",
"slice_view_eq_other_len": "fn f(a: &GenericArray<u8, U3>, b: &GenericArray<u8, U4>) -> bool { a == b }",
}
