"""C20 - arr! and box_arr! build the array their literal syntax denotes. Generated programs; the native array literal
and an evaluation log are the oracles."""
import os
import random
import re
import time

import e2common as E

PID = "C20"

PRELUDE = r'''#![allow(dead_code, unused_imports, unused_mut, clippy::all)]
extern crate alloc;
use generic_array::typenum::operator_aliases::{Add1, Prod, Sum};
use generic_array::typenum::*;
use generic_array::{arr, box_arr, ArrayLength, ConstArrayLength, GenericArray, IntoArrayLength};
use std::cell::RefCell;

thread_local! { static LOG: RefCell<Vec<u32>> = RefCell::new(Vec::new()); }
fn lg(i: u32, v: u32) -> u32 { LOG.with(|l| l.borrow_mut().push(i)); v }
fn lgs(i: u32, v: &str) -> String { LOG.with(|l| l.borrow_mut().push(i)); v.to_string() }
fn take() -> Vec<u32> { LOG.with(|l| std::mem::take(&mut *l.borrow_mut())) }
fn len_of<T, N: ArrayLength>(_: &GenericArray<T, N>) -> usize { N::USIZE }
static mut BAD: u32 = 0;
static mut CUR: u32 = 0;
fn fail(id: u32, what: &str) { println!("FAIL {} {}", id, what); unsafe { BAD += 1 }; }
fn ordered(k: usize) -> Vec<u32> { (0..k as u32).collect() }
static mut COUNTER: u32 = 100;
fn next() -> u32 { unsafe { COUNTER += 1; COUNTER } }
// a value whose destructor is observable: element expressions of the form `(bump(i), rd()).1` leave a temporary behind that
// lives until the end of the enclosing statement in a native array literal
thread_local! { static BUMPS: std::cell::Cell<u32> = std::cell::Cell::new(0); }
struct Bump(u32);
impl Drop for Bump { fn drop(&mut self) { BUMPS.with(|b| b.set(b.get() + 1)); LOG.with(|l| l.borrow_mut().push(1000 + self.0)); } }
fn bump(i: u32) -> Bump { LOG.with(|l| l.borrow_mut().push(i)); Bump(i) }
fn rd() -> u32 { BUMPS.with(|b| b.get()) }
'''


def build(tier, seed):
    rng = random.Random(seed * 2654435761 % (1 << 32) + 11)
    items = []  # (id, kind, params, top-level decls, body statements)
    counts = list(range(0, 65)) + [100, 128, 255, 256]
    iid = [0]

    def add(kind, params, decl, body):
        iid[0] += 1
        items.append((iid[0], kind, params, decl, body.replace("@ID@", str(iid[0]))))

    for k in counts:
        vals = [rng.randrange(1 << 31) for _ in range(k)]
        for trailing in [False, True]:
            tc = ", " if trailing else ""
            if k == 0:
                tc = ", " if trailing else ""
            elems = ", ".join(f"lg({i}, {v})" for i, v in enumerate(vals)) + tc
            native = "[" + ", ".join(f"{v}u32" for v in vals) + "]"
            body = (f"    let _ = take();\n    let a = arr![{elems}];\n    let log = take();\n"
                    f"    let typed: &GenericArray<u32, U{k}> = &a;\n"
                    f"    if len_of(&a) != {k} {{ fail(@ID@, \"inferred length\"); }}\n"
                    f"    if log != ordered({k}) {{ fail(@ID@, \"element expressions not evaluated exactly once, left to right\"); }}\n"
                    f"    let native: [u32; {k}] = {native};\n    if typed.as_slice() != &native[..] {{ fail(@ID@, \"contents differ from the native array literal\"); }}\n"
                    f"    let _ = take();\n    let b = box_arr![{elems}];\n    let log = take();\n    let typed_b: &Box<GenericArray<u32, U{k}>> = &b;\n"
                    f"    if log != ordered({k}) {{ fail(@ID@, \"box_arr!: element expressions not evaluated exactly once, left to right\"); }}\n"
                    f"    if **typed_b != a {{ fail(@ID@, \"box_arr! differs from arr! with the same arguments\"); }}")
            add("list_u32", {"count": k, "trailing_comma": trailing}, "", body)
        if k <= 32 or tier == "thorough":
            svals = [f"s{rng.randrange(1000)}" for _ in range(k)]
            elems = ", ".join(f'lgs({i}, "{v}")' for i, v in enumerate(svals))
            native = "[" + ", ".join(f'"{v}"' for v in svals) + "]"
            body = (f"    let _ = take();\n    let a: GenericArray<String, U{k}> = arr![{elems}];\n    let log = take();\n"
                    f"    if log != ordered({k}) {{ fail(@ID@, \"non-Copy list: evaluation order\"); }}\n"
                    f"    let native: [&str; {k}] = {native};\n    if a.iter().map(|s| s.as_str()).collect::<Vec<_>>() != native.to_vec() {{ fail(@ID@, \"non-Copy list: contents\"); }}\n"
                    f"    let b: Box<GenericArray<String, U{k}>> = box_arr![{elems}];\n    let _ = take();\n    if *b != a {{ fail(@ID@, \"box_arr! (non-Copy) differs from arr!\"); }}")
            add("list_string", {"count": k}, "", body)
        # const position, list form
        if k <= 64:
            lits = ", ".join(f"{v}u32" for v in vals)
            decl = f"const C_@ID@: GenericArray<u32, U{k}> = arr![{lits}];"
            body = f"    let native: [u32; {k}] = [{lits}];\n    if C_@ID@.as_slice() != &native[..] {{ fail(@ID@, \"const list form differs from the native literal\"); }}"
            iid[0] += 1
            items.append((iid[0], "const_list", {"count": k}, decl.replace("@ID@", str(iid[0])), body.replace("@ID@", str(iid[0]))))
    # repeat forms over the lattice
    lat = [0, 1, 2, 3, 4, 5, 7, 8, 12, 16, 17, 31, 32, 33, 64, 100, 255, 256, 1000, 1024]
    for n in lat:
        x = rng.randrange(1 << 31)
        decl = (f"const R_@ID@: GenericArray<u32, U{n}> = arr![{x}u32; U{n}];\nconst S_@ID@: GenericArray<u32, U{n}> = arr![{x}u32; {n}];")
        body = (f"    let native = [{x}u32; {n}];\n"
                f"    if R_@ID@.as_slice() != &native[..] || S_@ID@.as_slice() != &native[..] {{ fail(@ID@, \"const repeat forms differ from [x; n]\"); }}\n"
                f"    let _ = take();\n    let a = arr![lg(0, {x}); U{n}];\n    let log = take();\n    let t: &GenericArray<u32, U{n}> = &a;\n"
                f"    if t.as_slice() != &native[..] {{ fail(@ID@, \"arr![x; U<n>] is not n copies of x\"); }}\n"
                f"    let _ = take();\n    let native_log = {{ let _z = [lg(0, {x}); {n}]; take() }};\n"
                f"    if log != native_log {{ fail(@ID@, \"arr![x; U<n>] evaluates x differently from [x; n]\"); }}\n"
                f"    let a2 = arr![lg(0, {x}); {n}];\n    let log = take();\n    let t2: &GenericArray<u32, U{n}> = &a2;\n"
                f"    if t2.as_slice() != &native[..] || log != native_log {{ fail(@ID@, \"arr![x; n] is not n copies of x (or evaluates x differently from [x; n])\"); }}\n"
                f"    let b = box_arr![lg(0, {x}); U{n}];\n    let log = take();\n    let tb: &Box<GenericArray<u32, U{n}>> = &b;\n"
                f"    let vec_log = {{ let _z = vec![lg(0, {x}); {n}]; take() }};\n"
                f"    if **tb != a || log != vec_log {{ fail(@ID@, \"box_arr![x; U<n>] differs from arr! (or evaluates x differently from vec![x; n])\"); }}\n"
                f"    let b2 = box_arr![lg(0, {x}); {n}];\n    let log = take();\n    let tb2: &Box<GenericArray<u32, U{n}>> = &b2;\n"
                f"    if **tb2 != a || log != vec_log {{ fail(@ID@, \"box_arr![x; n] differs from arr! (or evaluates x differently from vec![x; n])\"); }}\n"
                f"    let first = unsafe {{ COUNTER }} + 1;\n    let c = arr![next(); U{n}];\n    let d = box_arr![next(); U{n}];\n"
                f"    if c.iter().any(|v| *v != first) {{ fail(@ID@, \"arr![impure; U<n>] is not n copies of one value\"); }}\n"
                f"    if {n} > 0 && d.iter().any(|v| *v != d[0]) {{ fail(@ID@, \"box_arr![impure; U<n>] is not n copies of one value\"); }}")
        iid[0] += 1
        items.append((iid[0], "repeat", {"n": n}, decl.replace("@ID@", str(iid[0])), body.replace("@ID@", str(iid[0]))))
    # element expressions that move non-Copy locals (no side effects, but each may be used only once)
    for k in [1, 2, 3, 5, 12]:
        decls = "\n".join(f'    let s{i} = String::from("m{i}"); let t{i} = String::from("m{i}");' for i in range(k))
        body = (f"{decls}\n    let a: GenericArray<String, U{k}> = arr![{', '.join(f's{i}' for i in range(k))}];\n"
                f"    let b: Box<GenericArray<String, U{k}>> = box_arr![{', '.join(f't{i}' for i in range(k))}];\n"
                f"    let want: Vec<String> = (0..{k}).map(|i| format!(\"m{{}}\", i)).collect();\n"
                f"    if a.as_slice() != &want[..] {{ fail(@ID@, \"arr! of moved locals\"); }}\n    if *b != a {{ fail(@ID@, \"box_arr! of moved locals differs from arr!\"); }}")
        add("list_moved_locals", {"count": k}, "", body)
    # repeat forms whose length is a type-level expression without a name of its own
    for n, ty in [(8, "Add1<U7>"), (1025, "Sum<U1024, U1>"), (3000, "Prod<U1000, U3>"), (1030, "Sum<U1000, U30>")]:
        x = rng.randrange(1 << 31)
        decl = f"const T_@ID@: GenericArray<u32, {ty}> = arr![{x}u32; {ty}];"
        body = (f"    let native = [{x}u32; {n}];\n    if T_@ID@.as_slice() != &native[..] {{ fail(@ID@, \"const arr![x; <type expression>]\"); }}\n"
                f"    let a = arr![{x}u32; {ty}];\n    if len_of(&a) != {n} || a.as_slice() != &native[..] {{ fail(@ID@, \"arr![x; <type expression>]\"); }}\n"
                f"    let b = box_arr![{x}u32; {ty}];\n    if b.as_slice() != &native[..] {{ fail(@ID@, \"box_arr![x; <type expression>]\"); }}")
        iid[0] += 1
        items.append((iid[0], "repeat_type_expression", {"n": n, "type": ty}, decl.replace("@ID@", str(iid[0])), body.replace("@ID@", str(iid[0]))))
    # element expressions that leave temporaries with destructors behind: values and the complete evaluation/drop log must be
    # those of the native array literal with the same expressions
    for k in [1, 2, 3, 4, 7]:
        elems = ", ".join(f"(bump({i}), rd() + {i * 10}).1" for i in range(k))
        body = (f"    let _ = take();\n    let native: [u32; {k}] = [{elems}];\n    let native_log = take();\n"
                f"    let a: GenericArray<u32, U{k}> = arr![{elems}];\n    let log_a = take();\n"
                f"    let base_a = a[0];\n    if a.iter().zip(native.iter()).any(|(x, y)| x - base_a != y - native[0]) {{ fail(@ID@, \"arr! with temporaries in the element expressions: values differ from the native literal\"); }}\n"
                f"    if log_a != native_log {{ fail(@ID@, \"arr!: evaluation / temporary-drop log differs from the native literal\"); }}\n"
                f"    let b: Box<GenericArray<u32, U{k}>> = box_arr![{elems}];\n    let log_b = take();\n"
                f"    let base_b = b[0];\n    if b.iter().zip(native.iter()).any(|(x, y)| x - base_b != y - native[0]) {{ fail(@ID@, \"box_arr! with temporaries in the element expressions: values differ from the native literal\"); }}\n"
                f"    if log_b != native_log {{ fail(@ID@, \"box_arr!: evaluation / temporary-drop log differs from the native literal\"); }}")
        add("list_temporaries", {"count": k}, "", body)
    # elements that need the expected type to flow into the element expressions (unsized coercions), as in a native literal
    for k in [1, 2, 3]:
        cl = ", ".join(f"Box::new(move |x| x + {i})" for i in range(k))
        sl = ", ".join(f"&[{i}u8; {i + 1}]" for i in range(k))
        body = (f"    let native: [Box<dyn Fn(u32) -> u32>; {k}] = [{cl}];\n"
                f"    let a: GenericArray<Box<dyn Fn(u32) -> u32>, U{k}> = arr![{cl}];\n"
                f"    let b: Box<GenericArray<Box<dyn Fn(u32) -> u32>, U{k}>> = box_arr![{cl}];\n"
                f"    for i in 0..{k} {{ if a[i](5) != native[i](5) || b[i](5) != native[i](5) {{ fail(@ID@, \"coerced closure elements\"); }} }}\n"
                f"    let ns: [&[u8]; {k}] = [{sl}];\n    let s: GenericArray<&[u8], U{k}> = arr![{sl}];\n    let bs: Box<GenericArray<&[u8], U{k}>> = box_arr![{sl}];\n"
                f"    if s.as_slice() != &ns[..] || bs.as_slice() != &ns[..] {{ fail(@ID@, \"coerced slice elements\"); }}")
        add("list_coerced", {"count": k}, "", body)
    # element expressions that carry attributes (legal on the elements of an array literal): kept elements in both macros, and an
    # element removed by `#[cfg(any())]` in arr! - the array the syntax denotes is the native literal's, one element shorter
    for k in [1, 2, 4]:
        vals = [rng.randrange(1 << 31) for _ in range(k + 1)]
        kept = ", ".join((["#[cfg(all())] ", "#[allow(unused_parens)] ", ""][i % 3]) + f"(lg({i}, {v}))" for i, v in enumerate(vals[:k]))
        body = (f"    let native: [u32; {k}] = [{kept}];\n    let _ = take();\n    let a: GenericArray<u32, U{k}> = arr![{kept}];\n    let log = take();\n"
                f"    if log != ordered({k}) || a.as_slice() != &native[..] {{ fail(@ID@, \"arr! with attributes on kept elements\"); }}\n"
                f"    let b: Box<GenericArray<u32, U{k}>> = box_arr![{kept}];\n    let log = take();\n"
                f"    if log != ordered({k}) || *b != a {{ fail(@ID@, \"box_arr! with attributes on kept elements\"); }}")
        add("list_attributes_kept", {"count": k}, "", body)
        removed = ", ".join(("#[cfg(any())] " if i == k // 2 else "") + f"lg({i}, {v})" for i, v in enumerate(vals))
        want_log = [i for i in range(k + 1) if i != k // 2]
        body = (f"    let native: [u32; {k}] = [{removed}];\n    let _ = take();\n    let a: GenericArray<u32, U{k}> = arr![{removed}];\n    let log = take();\n"
                f"    if log != vec!{want_log} || a.as_slice() != &native[..] {{ fail(@ID@, \"arr! with an element removed by cfg differs from the native literal\"); }}")
        add("list_cfg_removed_element_arr", {"count": k + 1}, "", body)
        # KNOWN FINDING (known_findings.json, signature solo_box_arr_cfg_removed_element): box_arr! counts the element tokens but
        # builds its vec! from the cfg-filtered list. Compiled as a program of its own so that nothing else is lost with it.
        body = (f"    let native: [u32; {k}] = [{removed}];\n"
                f"    let b: Box<GenericArray<u32, U{k}>> = box_arr![{removed}];\n"
                f"    if b.as_slice() != &native[..] {{ fail(@ID@, \"box_arr! with an element removed by cfg differs from the native literal\"); }}")
        add("solo_box_arr_cfg_removed_element", {"count": k + 1}, "", body)
    # macro hygiene: element expressions that mention the caller's own items. macro_rules! hygiene does not cover items, so a
    # helper item inside the expansion with the same name would capture them
    cnames = ["LEN", "N", "LENGTH", "INPUT_LENGTH", "SIZE", "COUNT", "CAP", "USIZE", "ARR", "VEC", "ARRAY", "LEN_", "INPUT", "OUT", "VALUE", "INIT", "ITEM", "ELEM"] + [chr(c) for c in range(ord("A"), ord("Z") + 1) if chr(c) != "N"]
    fnames = ["len", "n", "f", "x", "helper", "transmute", "do_transmute", "from_array", "make", "build", "init", "value", "array", "arr_", "length", "convert", "cast", "inner", "go", "imp"]
    rng.shuffle(cnames)
    rng.shuffle(fnames)
    groups = [cnames[i::6] for i in range(6)]
    fgroups = [fnames[i::6] for i in range(6)]
    for gi in range(6):
        n = [3, 4, 5, 7, 9, 2][gi]
        cs, fs = groups[gi], fgroups[gi]
        decls = "".join(f"    const {c}: u32 = {700001 + 13 * j + 1000 * gi};\n" for j, c in enumerate(cs)) + "".join(f"    const fn {f}() -> u32 {{ {800001 + 17 * j + 1000 * gi} }}\n" for j, f in enumerate(fs))
        expr = " ^ ".join(cs) + " ^ " + " ^ ".join(f"{f}()" for f in fs)
        lst = ", ".join(f"{c} + {j}" for j, c in enumerate(cs)) + ", " + ", ".join(f"{f}() + {j}" for j, f in enumerate(fs))
        cnt = len(cs) + len(fs)
        body = (f"{decls}    let want: u32 = {expr};\n    let native = [want; {n}];\n    let nl: [u32; {cnt}] = [{lst}];\n"
                f"    const K1: GenericArray<u32, U{n}> = arr![{expr}; U{n}];\n    const K2: GenericArray<u32, U{n}> = arr![{expr}; {n}];\n    const K3: GenericArray<u32, U{cnt}> = arr![{lst}];\n"
                f"    let a1 = arr![{expr}; U{n}];\n    let a2 = arr![{expr}; {n}];\n    let a3 = arr![{lst}];\n"
                f"    let b1 = box_arr![{expr}; U{n}];\n    let b2 = box_arr![{expr}; {n}];\n    let b3 = box_arr![{lst}];\n"
                f"    let a4 = arr![{expr}; Sum<U{n}, U0>];\n    let b4 = box_arr![{expr}; Sum<U{n}, U0>];\n"
                f"    for (w, g) in [(\"const arr![x; U<n>]\", K1.as_slice()), (\"const arr![x; n]\", K2.as_slice()), (\"arr![x; U<n>]\", a1.as_slice()), (\"arr![x; n]\", a2.as_slice()), (\"box_arr![x; U<n>]\", b1.as_slice()), (\"box_arr![x; n]\", b2.as_slice()), (\"arr![x; <type expression>]\", a4.as_slice()), (\"box_arr![x; <type expression>]\", b4.as_slice())] {{\n"
                f"        if g != &native[..] {{ fail(@ID@, &format!(\"{{}}: an element expression that mentions the caller's own items does not have the value it has in [x; n]\", w)); }}\n    }}\n"
                f"    for (w, g) in [(\"const arr![list]\", K3.as_slice()), (\"arr![list]\", a3.as_slice()), (\"box_arr![list]\", b3.as_slice())] {{\n"
                f"        if g != &nl[..] {{ fail(@ID@, &format!(\"{{}}: element expressions that mention the caller's own items differ from the native literal\", w)); }}\n    }}")
        add("hygiene_caller_items", {"n": n, "consts": cs, "fns": fs}, "", body)
    # arr! repeat lengths that name a const parameter or an associated constant of the enclosing item (wherever [x; n] works).
    # box_arr![x; <expr>] declares a helper const item for its length on the unchanged tree and so never supported this: not generated
    for k in [0, 1, 5, 64]:
        x = rng.randrange(1 << 31)
        decl = (f"fn filled_@ID@<const K: usize>(v: u32) -> GenericArray<u32, ConstArrayLength<K>> where Const<K>: IntoArrayLength {{ arr![v; {{ K }}] }}\n"
                f"struct Blk_@ID@;\nimpl Blk_@ID@ {{\n    const WORDS: usize = {k};\n    fn mk() -> GenericArray<u32, U{k}> {{ arr![{x}u32; {{ Self::WORDS }}] }}\n"
                f"    const ONES: GenericArray<u32, U{k}> = arr![{x}u32; {{ Self::WORDS }}];\n}}")
        body = (f"    let native = [{x}u32; {k}];\n    let _ = take();\n    let a = filled_@ID@::<{k}>(lg(0, {x}));\n    let log = take();\n"
                f"    if a.as_slice() != &native[..] || log != vec![0] {{ fail(@ID@, \"arr![v; {{ K }}] with a const parameter as length\"); }}\n"
                f"    if Blk_@ID@::mk().as_slice() != &native[..] || Blk_@ID@::ONES.as_slice() != &native[..] {{ fail(@ID@, \"arr![x; {{ Self::WORDS }}] with an associated constant as length\"); }}")
        iid[0] += 1
        items.append((iid[0], "repeat_len_from_enclosing_item", {"n": k}, decl.replace("@ID@", str(iid[0])), body.replace("@ID@", str(iid[0]))))
    # repeat with a non-Copy but Clone element is only offered by box_arr!
    for n in [0, 1, 3, 17]:
        body = (f"    let b: Box<GenericArray<String, U{n}>> = box_arr![String::from(\"q\"); U{n}];\n"
                f"    if b.len() != {n} || b.iter().any(|s| s != \"q\") {{ fail(@ID@, \"box_arr![String; U<n>]\"); }}")
        add("box_repeat_clone", {"n": n}, "", body)
    return items


def program(items):
    lines = [PRELUDE]
    spans = []
    ln = PRELUDE.count("\n") + 2
    for (i, kind, params, decl, body) in items:
        if decl:
            lines.append(decl)
            spans.append((ln, ln + decl.count("\n"), i))
            ln += decl.count("\n") + 1
    for (i, kind, params, decl, body) in items:
        code = f"fn item_{i}() {{\n{body}\n}}"
        n = code.count("\n") + 1
        spans.append((ln, ln + n - 1, i))
        lines.append(code)
        ln += n
    lines.append("fn main() {")
    lines.append('    std::panic::set_hook(Box::new(|info| { println!("FAIL {} panicked: {}", unsafe { CUR }, info.to_string().replace(\'\\n\', " ")); }));')
    for (i, *_r) in items:
        lines.append(f"    unsafe {{ CUR = {i}; }}")
        lines.append(f"    if std::panic::catch_unwind(|| item_{i}()).is_err() {{ unsafe {{ BAD += 1 }}; }}")
    lines.append('    println!("DONE bad={}", unsafe { BAD });\n}')
    return "\n".join(lines) + "\n", spans


def run(root, pid, tier, seed):
    t0 = time.time()
    wd = E.workdir(root, pid)
    items = build(tier, seed)
    # items of a `solo_` kind (directed cases of listed known findings) are compiled one per program: an item that does not
    # compile takes its whole program with it
    solo = [it for it in items if it[1].startswith("solo_")]
    rest = [it for it in items if not it[1].startswith("solo_")]
    chunks = [rest[i::16] for i in range(16)] + [[it] for it in solo]
    nchunks = len(chunks)
    by_id = {it[0]: it for it in items}
    failures = []
    # dev profile (debug assertions on) and release profile (off): the macros expand to calls of library functions
    for cfg in (None, E.RELEASE_FULL):
        lib = E.Lib(root, cfg)
        tag = "" if cfg is None else "_" + cfg[0]
        label = "" if cfg is None else "[crate built in the release profile, debug assertions off] "

        def do(ci):
            src = os.path.join(wd, f"macros{tag}_{ci}.rs")
            exe = os.path.join(wd, f"macros{tag}_{ci}")
            text, spans = program(chunks[ci])
            open(src, "w").write(text)
            rc, err = lib.rustc(src, exe)
            if rc != 0:
                return ("compile", ci, err, spans)
            rc, out, err2 = E.run_exe(exe)
            return ("run", ci, rc, out, err2)

        results = E.pmap(do, range(nchunks))
        bad = {}
        for r in results:
            if r[0] == "compile":
                _, ci, err, spans = r
                hit = False
                for ln, head, blk in E.error_locations(err, r"macros%s_%d\.rs" % (tag, ci)):
                    for (a, b, i) in spans:
                        if a <= ln <= b:
                            bad.setdefault(i, "does not compile: " + head)
                            hit = True
                    if not hit:
                        # a const item at top level
                        mm = re.search(r"(?:const [CRST]|fn filled|fn boxed|Blk)_(\d+)", blk[:1500])
                        if mm:
                            bad.setdefault(int(mm.group(1)), "const item does not compile")
                            hit = True
                if not hit:
                    print(err[-2500:])
                    print(f"INFRA: macro program {ci} does not compile and the error could not be attributed")
                    return None
            else:
                _, ci, rc, out, err2 = r
                if "DONE bad=" not in out:
                    print(out[-1000:], err2[-1000:])
                    print(f"INFRA: macro program {ci} did not finish (rc={rc})")
                    return None
                for line in out.splitlines():
                    if line.startswith("FAIL "):
                        parts = line.split(" ", 2)
                        bad.setdefault(int(parts[1]), parts[2])
        hdr = "" if cfg is None else "// configuration: release_full\n"
        for i, why in list(bad.items())[:10]:
            it = by_id[i]
            text, _ = program([it])
            path = E.save_replay(root, pid, it[1], f"{hdr}// C20 item kind={it[1]} params={it[2]}\n// expect: accept\n" + text)
            failures.append({"msg": f"{label}{it[1]} {it[2]}: {why}", "replay": path})
    classes = {}
    for it in items:
        classes[it[1]] = classes.get(it[1], 0) + 1
    nontrivial = {(it[1], str(it[2])) for it in items if it[2].get("count", it[2].get("n", 0)) >= 2}
    samples = [{"kind": it[1], "params": it[2], "body": it[4][:300]} for it in (items[2], items[40], items[-6], items[-1])]
    return E.evidence(
        pid, tier, seed, "exploration", 2 * len(items), len(nontrivial),
        "generated invocations: list form with every element count 0..=64 plus 100, 128, 255, 256 (with and without trailing comma, including arr![] and arr![, ]) whose element expressions log their evaluation; non-Copy (String) list form; const-position list form; both repeat forms arr![x; U<n>] and arr![x; n] over 20 lengths up to 1024 in const and let position, with pure, logging and impure x; box_arr! with the same arguments; list forms whose elements move non-Copy locals; repeat forms whose length is a type-level expression (Add1, Sum, Prod) in const and let position; box_arr! repeat with a Clone-only element; list forms whose element expressions leave temporaries with observable destructors behind (values and the complete evaluation/drop log must be those of the native literal); list forms whose elements need the expected type (Box<dyn Fn>, &[u8]) to flow into the expressions; list forms whose elements carry attributes (kept elements in both macros; an element removed by #[cfg(any())]: arr! must equal the shorter native literal, box_arr! is the directed case of a listed known finding); repeat lengths that name a const parameter or an associated constant of the enclosing item; element expressions that mention items of the caller under ~60 plausible names (LEN, N, T, len(), transmute() ...; macro_rules! hygiene does not cover items) in all forms and positions. Every program is compiled against the crate built in the dev and in the release profile. "
        "Oracle: the result coerces to an explicitly written GenericArray<_, U{k}> (so the inferred length is right) and N::USIZE = k, equals the native array literal with the same expressions, the evaluation log is exactly 0..k once each left to right; repeat forms equal [x; n] and evaluate x as [x; n] / vec![x; n] do; *box_arr![..] == arr![..]. "
        "non-trivial = invocations with at least two elements; distinct = distinct (kind, parameters)",
        samples, classes, exhaustive=False, assumptions=["a bare named const as repeat length is parsed as a type by the macro and is outside the documented forms"],
        failures=failures, wall=time.time() - t0, extra={"programs": nchunks})


def replay(root, pid, path):
    lib = E.Lib(root, E.RELEASE_FULL if open(path).read().startswith("// configuration: release_full") else None)
    exe = os.path.join(E.workdir(root, pid), "replay_exe")
    rc, err = lib.rustc(path, exe)
    ok = rc == 0
    if ok:
        _, out, _ = E.run_exe(exe)
        print(out)
        ok = "DONE bad=0" in out
    print(err[:1500])
    if not ok:
        print(f"VIOLATION property={pid} replay={path}")
        return 1
    return 0
