"""C02, compile-time half: the conversions between GenericArray<T, N> and [T; K] / tuples exist only for K = N (shares the
accept/reject twin generator of C12)."""
import c12

ONLY = {"into_array", "from_array", "From_native", "Into_native", "AsRef_native", "AsMut_native", "From_ref_native", "From_mut_native", "tuple"}
RULE = ("compile-time half: accept/reject twins (one length apart) for into_array, from_array, From/Into<[T; K]>, AsRef/AsMut<[T; K]>, From<&[T; K]>, From<&mut [T; K]> and tuple conversions, "
        "compiled against the rlib built from the working tree: the K = N program must compile, the K = N+1 / N-1 program must be rejected by the type checker "
        "(a reinterpretation that type-checks for another length would hand out a view of the wrong extent). non-trivial = reject programs; distinct = distinct (template, parameters)")


def run(root, pid, tier, seed):
    return c12.run(root, pid, tier, seed, only=ONLY, rule=RULE)


def replay(root, pid, path):
    return c12.replay(root, pid, path)
