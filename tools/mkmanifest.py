#!/usr/bin/env python3
"""Regenerates MANIFEST.json from the table below (kept in one place so it stays valid)."""
import json, os
ROOT = os.path.dirname(os.path.dirname(os.path.abspath(__file__)))
BUILT = os.environ.get("BUILT", "").split()

CHECKS = {
 "C03": dict(engine="E1", cat="exploration", ref="DESIGN.md 5/C03",
   technique="stateful property testing: proptest-generated operation histories over a pool of live values, drop-registry invariant + value model after every step, shrinking",
   text="400k generated histories (quick) of up to 40 chained ownership-moving operations (44 kinds, incl. zips with plain no-drop-glue arrays and collects that must fail) over arrays of length 0..=12, iterators, Box/Vec/Box<[T]> and loose elements, with identity-carrying drop-tracked (heap payload), zero-sized tracked and plain elements, nth/nth_back arguments up to usize::MAX, clone_from between arrays / iterators of the same shape; every step is checked against a value model and the drop registry; run in two build profiles (with and without debug assertions / overflow checks). Held-on-explored.",
   note="Panic-free histories only; lengths above 12 are covered per operation by C06/C09/C11; trusts the harness registry."),
 "C04": dict(engine="E1", cat="fault_enumeration", ref="DESIGN.md 5/C04",
   technique="fault injection enumerated over crash points: a panic injected at every call index of every closure / Clone / Default / source next() of each operation instance, oracle = drop registry",
   text="For ~5k operation instances (operation x receiver form x N x element kinds; zips with (lhs, rhs, output) kind triples; clone_from for arrays, boxed arrays and iterators in several positions), in two build profiles, the K caller-code invocations are counted and the instance re-run with a panic at every k < K (sampled for K > 80); the panic must propagate and every element ever created must be dropped exactly once.",
   note="Single fault per run, never during unwinding; N <= 1024; element kinds limited to the compiled set."),
 "C05": dict(engine="E1", cat="fault_enumeration", ref="DESIGN.md 5/C05",
   technique="fault injection enumerated over (operation, iterator position, argument, panicking element): a destructor that panics once, oracle = per-element drop count and observation-after-drop registry; the iterator is used again after the caught panic",
   text="Complete enumeration for N <= 8 of every dropping operation (incl. clone_from into a non-empty destination and zips in five receiver forms whose closure drops its argument) from every iterator position with every argument and every choice of the one element whose destructor panics (24-byte, 96-byte and zero-sized tracked elements), plus 300k sampled cases up to N = 4096. No element may be dropped twice or observed after its drop; leaks are allowed.",
   note="Single panicking destructor per run; a second panic during unwinding aborts by language rule and is out of scope."),
 "C06": dict(engine="E1", cat="exploration", ref="DESIGN.md 5/C06",
   technique="model-based property testing: exhaustive small-N operation grid + proptest operation sequences against a VecDeque reference model, with shrinking",
   text="Every iterator operation with every argument from every reachable (front, back) position for N<=8 is enumerated (incl. clone_from in both directions against a second iterator in every position, T::clone call counts and per-value clone counters for an element kind without drop glue, clones consumed through 14 provided adaptor methods, format flags in Debug), plus 400k generated operation sequences up to N=4096 over five element kinds (incl. zero-sized with and without a destructor), in two build profiles, each compared call by call with a VecDeque model and with drop accounting of identity-carrying elements. Held-on-explored, not a proof.",
   note="Trusts VecDeque as the queue reference and the harness' drop registry; lengths outside the compiled lattice are not exercised."),
 "C07": dict(engine="E1", cat="exploration", ref="DESIGN.md 5/C07",
   technique="property testing with a scripted source: complete grid over (N, produced count, size_hint behaviour, fusedness, target, by-value/&mut) plus proptest-random cases; oracle computed from the script",
   text="~170k cases per build profile (with and without debug assertions): every produced count around N for 36 lengths, 24-byte and zero-sized drop-tracked elements, eighteen size_hint behaviours including lying, inconsistent (lower > upper) and counting-down ones, fused and non-fused sources, four collect targets, std TrustedLen sources, and a panic injected into every next() call for N<=12. Checks Ok iff exactly N, order, at most N+1 pulls, never polled after None, pulled items dropped exactly once.",
   note="Exact poll counts are not asserted; only the lattice lengths are instantiated."),
}

CHECKS.update({
 "C01": dict(engine="E2", cat="exploration", ref="DESIGN.md 5/C01",
   technique="generated programs + differential oracle: size/align/offset/address facts of GenericArray<T,N> against the native [T;N] under the same compiler, complete table + random type/length grammar",
   text="16k rows: every N in 0..=1024 x 14 element layouts and the 123 typenum constants above 1024 enumerated completely, ConstDefault-built arrays, plus random element types (grammar incl. packed/aligned structs and nested GenericArrays) x random binary digit strings to depth 62; size_of, align_of, struct-field offset, slice extent, element addresses and three value read paths compared with [T;N]; a reduced table (20 lengths x 14 layouts) is repeated against the crate built in 15 other configurations (release profile, no features, each single feature, the full set minus each feature).",
   note="Facts are those of this rustc on x86_64; the random part is a sample of the type/length space."),
 "C02": dict(engine="E1", cat="exploration", ref="DESIGN.md 5/C02",
   technique="property testing over a complete grid (lattice length x view x source length class x form) with seeded values; oracle = pointer identity, length, write-through and Ok/Err/panic as a function of (L, N)",
   text="63k cases per build profile (with and without debug assertions): 14 shared/mutable views checked for address, length and order with a write through each mutable view read back through all others; six reinterpretation forms against slices with L<N, L=N, L>N for 36 lengths up to 4096 and 7 element kinds (incl. zero-sized, drop-tracked, 72-byte and 32-byte-aligned); by-value array and all 12 tuple arities; slices of zero-sized elements longer than isize::MAX; a compile-time half (accept/reject twins: the conversions to and from [T; K] and tuples exist only for K = N) and a Miri replay of 150 directed cases (every view / conversion form).",
   note="A wrongly accepted reference is never dereferenced, only its address is inspected."),
 "C08": dict(engine="E1", cat="exploration", ref="DESIGN.md 5/C08",
   technique="property testing with a stateful, non-commutative recording closure over a complete grid of (operation form, length, element kind) with seeded values; oracle = exact call log + slice reference computation",
   text="86k cases per build profile over 40 operation forms (generate x4, map x4, zip x10, fold x4, Clone x2, clone_from x2, Default x2, map x4 / zip x10 into a zero-sized () output, map x4 into seven output types of other sizes and alignments) x 16 lengths (34 for u32, incl. non-multiples of every power-of-two block size) x 6 element kinds selecting every needs_drop / zero-size branch (incl. types without drop glue whose Clone/Default are observable), each compared with the expected call log 0..N-1 and with the same computation on slices.",
   note="Only the listed lengths are instantiated."),
 "C09": dict(engine="E1", cat="exploration", ref="DESIGN.md 5/C09",
   technique="differential property testing against Vec over an exhaustive type-level grid of (N,K)/(N,M)/index instances with seeded values, plus pointer-offset oracle for by-reference split",
   text="87k cases per build profile: every N<=12 with every K (split owned/&/&mut), every (N,M) with N+M<=12 (concat), boundary pairs to 4096, lengthen/shorten on 30 lengths up to 10000, remove/swap_remove with a spread of indices incl. N, N+1 and usize::MAX, eight element kinds of size 0/1/8/24/32(aligned)/72 incl. drop-tracked; a Miri replay of 320 cases; results compared with the Vec operations by value and identity.",
   note="A discarded one-past read is invisible natively (thorough tier: Miri/ASan)."),
 "C10": dict(engine="E1+E2", cat="exploration", ref="DESIGN.md 5/C10",
   technique="property testing over a complete (N, L) grid with std chunks_exact as reference (addresses, counts, write-through), plus generated const items evaluated by the compiler's const evaluator",
   text="20k run-time cases per build profile (every L in 0..=4N+3 for 15 N up to 64, boundary L to 4096, seven element kinds, shared and mutable, N = 0 with native-array chunk views) compared with chunks_exact/remainder by address and content, inverse and native-chunk views; plus ~2k const items over the same grid where an out-of-bounds slice is a hard compiler error (compiled against the dev- and the release-profile crate), plus accept/reject twins showing from_chunks / into_chunks (+_mut) only type-check for K = N.",
   note="Only addresses and lengths are inspected before results are known to be in bounds."),
 "C11": dict(engine="E1", cat="exploration", ref="DESIGN.md 5/C11",
   technique="property testing over an exhaustive (N, M) grid with seeded values; oracle = row-major index relation, round trip, pointer identity and write-through",
   text="38k cases per build profile: all (N,M) in 0..=6^2 plus 14 boundary pairs up to 4096 elements and by-reference regrouping of zero-sized arrays with up to 2^63 elements, owned/&/&mut forms of flatten and unflatten, eight element kinds incl. drop-tracked (24 and 96 bytes), zero-sized, 72-byte and over-aligned; flat[i*N+j]==nested[i][j] by value and identity, inverse law, same address and extent, write-through.",
   note="Unflatten only over evenly divisible lengths."),
 "C12": dict(engine="E2", cat="exploration", ref="DESIGN.md 5/C12",
   technique="generated programs in accept/reject twins (one length, type name or lifetime apart) compiled against the crate; oracle = predicted verdict vs rustc's type/trait/borrow checker",
   text="818 programs (quick) from ~270 templates (incl. 42 length-generic / inferred-type accept programs that state only the documented bounds, and reject programs comparing with native arrays of other lengths): every public operation relating two lengths, Send/Sync/Copy/Clone for array, iterator and Box over ten element types, and widening / escape / aliasing / freeze probes for 41 reference-returning APIs. Reject programs must fail with a length, bound or borrow error; accept twins prove the templates are well formed.",
   note="Templates are hand-written: a loosened bound no template probes is not found."),
 "C13": dict(engine="E1", cat="exploration", ref="DESIGN.md 5/C13",
   technique="property testing: exhaustive pairs over small alphabets + proptest pairs sharing a prefix; differential oracle = the slices of the same elements, a call-recording Hasher and map lookups through Borrow",
   text="124k pairs: all pairs over {0,1,2} for N<=4 and over {NaN,-0.0,0.0,1.0,inf} for N<=3, plus random prefix-sharing / tail-differing pairs for 36 lengths, every array also compared with itself and 7 element types (incl. zero-sized elements whose Hash still writes: nested arrays of length 0); ==,<,partial_cmp,cmp, the exact write_* call sequence fed to a hasher, 15 Debug format specs and HashMap/BTreeMap lookups by &[T] compared with the slice.",
   note="Hash agreement is checked as call sequences, which is stronger than equal hash values."),
 "C14": dict(engine="E1", cat="exploration", ref="DESIGN.md 5/C14",
   technique="property testing over a complete (N, precision, case, pattern) grid plus proptest-random data, run under both feature configurations; oracle = per-byte {:02x} reference string truncated to min(p, 2N)",
   text="2 x 123k cases: 66 lengths from 0 to 65536, every precision 0..=2N+2 for N<=33, boundary precisions (every power-of-two digit count, odd multiples of 2048, 2N-3..2N+1, 65535) beyond, four structured byte patterns plus random data, both cases; the check binary is built with and without faster-hex and both must equal the reference.",
   note="faster-hex picks its SIMD path by run-time CPU detection; other paths are not exercised."),
 "C15": dict(engine="E1", cat="exploration", ref="DESIGN.md 5/C15",
   technique="property testing over a grid of (conversion, N, source length, spare capacity, element kind) with a recording global allocator for block identity and small-stack child processes for multi-MiB constructions",
   text="13.6k cases per build profile: 14 conversions (boxed collects also from scripted iterators with unknown, loose and counting-down size hints) x 15 lengths (to 65536) x source lengths {0,N-1,N,N+1} x spare capacity; contents and identities vs the source, Ok iff length N, rejected sources dropped, O(1) conversions keep the block (pointer + allocator log), and five boxed constructors plus the expression-length box_arr! form build 4/16 MiB byte arrays and 31/32-element arrays of 16 KiB elements on a 256 KiB stack.",
   note="A stack round trip the optimiser removes entirely would not be seen (children built at opt-level 1)."),
 "C16": dict(engine="E1", cat="fault_enumeration", ref="DESIGN.md 5/C16",
   technique="recording global allocator + enumerated fault injection: a panic at every caller-code invocation (in-process) and an allocation failure at every allocation (child process) for each alloc-feature operation instance",
   text="2.7k operation instances (19 operations x 9 lengths x 6 element kinds incl. zero-sized-by-length and 32-byte aligned, a narrowing boxed map, and boxed collects/maps of 1-3 MiB arrays), each run clean, with a panic at every callback index and with the k-th allocation failing for every k; no zero-size request, matching dealloc/realloc layouts, no double free, nothing live at the end, standard allocation-error abort.",
   note="Allocation failure is injected for N<=8 in the quick tier; the allocator wrapper is per-thread."),
 "C17": dict(engine="E1", cat="exploration", ref="DESIGN.md 5/C17",
   technique="property testing with a recording Serializer, three real formats and a scripted Deserializer over a complete grid of (N, delivered count, up-front hint, later hints, element-error index); oracle computed from the script + drop registry",
   text="31k cases: serialize_tuple(N)/N elements/end, bincode = concatenated element encodings (and native tuples), JSON = list; round trips in JSON text, Value and bincode; rejection of every wrong count via JSON, truncated bincode and the scripted source with every hint/error combination (24-byte and zero-sized drop-tracked elements), plus 1-2 MiB arrays through bincode and exact hints; on rejection every element read is dropped.",
   note="A source reporting 'nothing left' while holding elements is outside the claim and not generated."),
 "C18": dict(engine="E2", cat="exploration", ref="DESIGN.md 5/C18",
   technique="generated const items: the compiler's const evaluator as UB oracle, python-computed expected checksums asserted inside the items, run-time re-evaluation of the same const fn, and separately compiled must-reject items",
   text="2.8k const items, each compiled against the crate built in the dev and in the release profile: 21 templates covering every const fn x 14 lengths x slice lengths 0..=3N+2 x 4 element types x shared/mutable with writes through results; each value asserted against a natively computed checksum at compile time and compared with the run-time evaluation; 140 reject items must fail with E0080 in both profiles; arr! element expressions also mention caller items under ~50 plausible names (macro hygiene); offset_from of every chunk part is asserted inside the const evaluator; 2^19/2^20-element const arrays with the long_running_const_eval lint kept visible.",
   note="The const evaluator checks only the instantiations the generated items contain."),
 "C19": dict(engine="E1+E2", cat="exploration", ref="DESIGN.md 5/C19",
   technique="property testing over every storage shape N in 0..=64 (+8 boundary lengths) x 16 element types with seeded prior contents; oracle = per-element comparison with the zeroized value / T::DEFAULT, at run time and in generated const items",
   text="11.7k run-time cases per build profile and 651 const items (incl. a non-Copy element type) over 93 lengths up to 12000 (element sizes 1, 2, 3, 4, 8, 16, 24 bytes incl. multi-word structs and nested arrays, one-byte types whose zeroized byte is not 0x00, a type whose zeroize keeps an id field and counts its calls; thorough tier: Miri replay on the host and on a 32-bit target): zeroize() leaves every element as zeroizing that element alone leaves it (incl. types whose zeroized value is not all-zero bytes or differs per element), const_default()/DEFAULT have every element equal to T::DEFAULT for types whose default is distinguishable from zero, equal Default::default(), at compile time and run time.",
   note="An odd node using one child twice is indistinguishable by value (harmless by construction)."),
 "C20": dict(engine="E2", cat="exploration", ref="DESIGN.md 5/C20",
   technique="generated macro invocations with logging element expressions; oracle = native array literal, explicit type annotation and evaluation log",
   text="283 generated invocation groups, compiled against the crate built in the dev and in the release profile: list form for every count 0..=64,100,128,255,256 (trailing comma variants, String elements, const position), both repeat forms over 20 lengths in const and let position with pure/logging/impure expressions, list forms moving non-Copy locals, repeat lengths given as type-level expressions or naming a const parameter / associated constant of the enclosing item, element expressions with observable temporaries (values and evaluation/drop log vs the native literal), elements needing expected-type coercion, element expressions mentioning caller items under ~60 plausible names (macro hygiene), and box_arr! with the same arguments.",
   note="Only the documented syntactic forms are generated."),
})

# additions of rounds 9 and 10 (appended to the texts above)
EXTRA = {
 "C01": "Also 26 lengths x 14 layouts spelled by hand with one to three leading zero digits (legal ArrayLength types no typenum alias produces), and random leading zeros in the digit strings.",
 "C02": "Zero-sized slices additionally with N + 2^k elements (k = 8, 16, 31, 32, 33, 48, 63; a comparison in a narrower integer type accepts them); the quick Miri stage replays the whole directed subset (348 cases), which now contains too-short sources ending at their allocation's end (a reference manufactured before the length check is a dangling reference there).",
 "C04": "Seven further zip forms in which one or both operands are a caller-defined GenericSequence type whose by-value iterator is a crash point in every next().",
 "C05": "Also serde deserialisation from a hint-less sequence source that ends early, is too long or fails at element c, and six wrong-length conversions to Box<GenericArray> (try_from_vec, try_from_boxed_slice, TryFrom<Box<[T]>>, spare capacity): error-return paths that release elements while not unwinding.",
 "C06": "For the element kind with an observable Clone the order of T::clone calls made by the iterator's Clone is compared with the native array iterator's (front to back).",
 "C07": "Both boxed targets also for N = 2^48 one-byte elements (cannot be allocated) from eleven size_hint behaviours that rule the length out: LengthError / the documented panic must come back without an allocation attempt.",
 "C08": "All operations again on seven lengths spelled by hand with leading zero digits, for u32, drop-tracked and zero-sized elements.",
 "C10": "Zero-sized slices of eight lengths no allocation could have (isize::MAX .. usize::MAX, N*2^48+1, ...) through chunks_from_slice(_mut), slice_from_chunks, into_chunks and from_chunks.",
 "C13": "Element kinds i8 (all pairs over {0, 127, -128, -1} for N <= 3: byte order is not the order), bool (its slice hash is one write_u8 per element) and a byte with a case-insensitive PartialEq / Ord / Hash of its own, enumerated for small N and in the random pairs.",
 "C14": "Every case is also formatted with the #, +, - and #03 flags: the digits and nothing else.",
 "C15": "Vec<()> / Box<[()]> of N + 2^16 .. 2^48, usize::MAX and isize::MAX + 1 + N elements through the four fallible conversions.",
 "C16": "A child that returns normally (Ok or Err) after one of its allocation requests was answered with null is a violation (previously read as 'failure index beyond the last allocation').",
 "C17": "A deserializer that answers deserialize_tuple(N) through visit_bytes / visit_byte_buf / visit_borrowed_bytes / visit_str / visit_string / an empty visit_map / visit_unit with every count 0..=N+2: an array may come back only for exactly N elements and must hold them.",
 "C18": "Every const fn once more on a 2^20-element array (const_default as fn and as associated constant, from_array/into_array, from_slice forms, from_mut_slice, chunks and back, uninit/assume_init): a per-element cost trips the deny-by-default long_running_const_eval lint.",
 "C20": "List forms whose elements carry attributes: kept elements (#[cfg(all())], #[allow(..)]) in both macros, an element removed by #[cfg(any())] in arr! (must equal the shorter native literal); the box_arr! twin of the latter is the directed case of the one open entry in known_findings.json (DESIGN.md 10.1) and is compiled as a program of its own.",
}
for _k, _v in EXTRA.items():
    CHECKS[_k]["text"] += " " + _v

def main():
    props = [json.loads(l) for l in open(os.path.join(ROOT, "properties.jsonl"))]
    checks = []
    na = []
    for p in props:
        pid = p["id"]
        if pid in CHECKS:
            c = CHECKS[pid]
            checks.append({
                "property_id": pid,
                "quick_cmd": f"./check {pid} --tier quick",
                "thorough_cmd": f"./check {pid} --tier thorough",
                "evidence_file": f"/verif/evidence/{pid}.json",
                "replay_cmd_template": f"./check {pid} --replay {{path}}",
                "engine": c["engine"],
                "level_claimed": {"category": c["cat"], "text": c["text"], "design_ref": c["ref"]},
                "level_note": c["note"],
                "technique": c["technique"],
            })
        else:
            na.append({"property_id": pid, "reason": "check not built yet in this session (planned, see DESIGN.md section 5); not a statement that the technique cannot apply"})
    m = {
        "version": 1,
        "setup_cmd": "./setup.sh",
        "hooks": {
            "guard": "--cfg generic_array_verif",
            "enable": "none needed: every observation point is reachable through the public API, the `internals` cargo feature, a #[global_allocator] in the harness and harness-defined element types; the guard name is reserved but unused",
            "baseline_off_cmd": "cd /repo && cargo nextest run --workspace --no-fail-fast --offline || cargo test --workspace --no-fail-fast --offline",
            "source_commits": [],
            "add_only": True,
        },
        "engines": [
            {"name": "E1", "path": "harness/", "serves_properties": ["C02","C03","C04","C05","C06","C07","C08","C09","C10","C11","C13","C14","C15","C16","C17","C19"], "kind_free_text": "Rust property harness: proptest 1.11 TestRunner (seeded, shrinking) + exhaustive enumerations, drop-tracked elements, fault injectors, recording allocator; path-depends on /repo"},
            {"name": "E2", "path": "gen/", "serves_properties": ["C01","C10","C12","C18","C19","C20"], "kind_free_text": "seeded python generators of Rust programs compiled with rustc against the rlib built from /repo; the compiler (type checker, borrow checker, const evaluator) and the native array are the oracles"},
            {"name": "E3", "path": "harness/fuzz/", "serves_properties": ["C03","C05","C06","C09"], "kind_free_text": "cargo-fuzz/libFuzzer + ASan targets and Miri replay reusing the E1 executors (thorough tier)"},
        ],
        "checks": checks,
        "not_applicable": na,
        "notes": "All checks: ./check <ID> --tier quick|thorough, honour VERIF_SEED, exit 0/1/2 (2 = infrastructure, never a verdict). Genuine defects found and repaired are listed in known_findings.json as fixed entries; one defect is recorded as open (box_arr! with a cfg-removed list element, DESIGN.md 10.1): C20 prints a KNOWN-FINDING line for it and exits 0.",
    }
    json.dump(m, open(os.path.join(ROOT, "MANIFEST.json"), "w"), indent=1)
    print("checks:", len(checks), "not_applicable:", len(na))
main()
