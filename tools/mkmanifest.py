#!/usr/bin/env python3
"""Regenerates MANIFEST.json from the table below (kept in one place so it stays valid)."""
import json, os
ROOT = os.path.dirname(os.path.dirname(os.path.abspath(__file__)))
BUILT = os.environ.get("BUILT", "").split()

CHECKS = {
 "C03": dict(engine="E1", cat="exploration", ref="DESIGN.md 5/C03",
   technique="stateful property testing: proptest-generated operation histories over a pool of live values, drop-registry invariant + value model after every step, shrinking",
   text="120k generated histories (quick) of up to 40 chained ownership-moving operations (42 kinds) over arrays of length 0..=12, iterators, Box/Vec/Box<[T]> and loose elements, with identity-carrying drop-tracked (heap payload), zero-sized tracked and plain elements; every step is checked against a value model and the drop registry. Held-on-explored.",
   note="Panic-free histories only; lengths above 12 are covered per operation by C06/C09/C11; trusts the harness registry."),
 "C04": dict(engine="E1", cat="fault_enumeration", ref="DESIGN.md 5/C04",
   technique="fault injection enumerated over crash points: a panic injected at every call index of every closure / Clone / Default / source next() of each operation instance, oracle = drop registry",
   text="For ~3k operation instances (operation x receiver form x N x element kinds) the K caller-code invocations are counted and the instance re-run with a panic at every k < K (sampled for K > 80); the panic must propagate and every element ever created must be dropped exactly once.",
   note="Single fault per run, never during unwinding; N <= 1024; element kinds limited to the compiled set."),
 "C05": dict(engine="E1", cat="fault_enumeration", ref="DESIGN.md 5/C05",
   technique="fault injection enumerated over (operation, iterator position, argument, panicking element): a destructor that panics once, oracle = per-element drop count and observation-after-drop registry; the iterator is used again after the caught panic",
   text="Complete enumeration for N <= 8 of every dropping operation from every iterator position with every argument and every choice of the one element whose destructor panics, plus 100k sampled cases up to N = 1024. No element may be dropped twice or observed after its drop; leaks are allowed.",
   note="Single panicking destructor per run; a second panic during unwinding aborts by language rule and is out of scope."),
 "C06": dict(engine="E1", cat="exploration", ref="DESIGN.md 5/C06",
   technique="model-based property testing: exhaustive small-N operation grid + proptest operation sequences against a VecDeque reference model, with shrinking",
   text="Every iterator operation with every argument from every reachable (front, back) position for N<=8 is enumerated, plus 200k generated operation sequences up to N=1024, each compared call by call with a VecDeque model and with drop accounting of identity-carrying elements. Held-on-explored, not a proof.",
   note="Trusts VecDeque as the queue reference and the harness' drop registry; lengths outside the compiled lattice are not exercised."),
 "C07": dict(engine="E1", cat="exploration", ref="DESIGN.md 5/C07",
   technique="property testing with a scripted source: complete grid over (N, produced count, size_hint behaviour, fusedness, target, by-value/&mut) plus proptest-random cases; oracle computed from the script",
   text="~70k cases: every produced count around N for 34 lengths, ten size_hint behaviours including lying ones, fused and non-fused sources, four collect targets, std TrustedLen sources, and a panic injected into every next() call for N<=12. Checks Ok iff exactly N, order, at most N+1 pulls, never polled after None, pulled items dropped exactly once.",
   note="Exact poll counts are not asserted; only the lattice lengths are instantiated."),
}

def main():
    props = [json.loads(l) for l in open(os.path.join(ROOT, "properties.jsonl"))]
    checks = []
    na = []
    for p in props:
        pid = p["id"]
        if pid in CHECKS:
            c = CHECKS[pid]
            checks.append({
                "property_id": pid,
                "quick_cmd": f"./check {pid} --tier quick",
                "thorough_cmd": f"./check {pid} --tier thorough",
                "evidence_file": f"/verif/evidence/{pid}.json",
                "replay_cmd_template": f"./check {pid} --replay {{path}}",
                "engine": c["engine"],
                "level_claimed": {"category": c["cat"], "text": c["text"], "design_ref": c["ref"]},
                "level_note": c["note"],
                "technique": c["technique"],
            })
        else:
            na.append({"property_id": pid, "reason": "check not built yet in this session (planned, see DESIGN.md section 5); not a statement that the technique cannot apply"})
    m = {
        "version": 1,
        "setup_cmd": "./setup.sh",
        "hooks": {
            "guard": "--cfg generic_array_verif",
            "enable": "none needed: every observation point is reachable through the public API, the `internals` cargo feature, a #[global_allocator] in the harness and harness-defined element types; the guard name is reserved but unused",
            "baseline_off_cmd": "cd /repo && cargo nextest run --workspace --no-fail-fast --offline || cargo test --workspace --no-fail-fast --offline",
            "source_commits": [],
            "add_only": True,
        },
        "engines": [
            {"name": "E1", "path": "harness/", "serves_properties": ["C02","C03","C04","C05","C06","C07","C08","C09","C10","C11","C13","C14","C15","C16","C17","C19"], "kind_free_text": "Rust property harness: proptest 1.11 TestRunner (seeded, shrinking) + exhaustive enumerations, drop-tracked elements, fault injectors, recording allocator; path-depends on /repo"},
            {"name": "E2", "path": "gen/", "serves_properties": ["C01","C10","C12","C18","C19","C20"], "kind_free_text": "seeded python generators of Rust programs compiled with rustc against the rlib built from /repo; the compiler (type checker, borrow checker, const evaluator) and the native array are the oracles"},
            {"name": "E3", "path": "harness/fuzz/", "serves_properties": ["C03","C05","C06","C09"], "kind_free_text": "cargo-fuzz/libFuzzer + ASan targets and Miri replay reusing the E1 executors (thorough tier)"},
        ],
        "checks": checks,
        "not_applicable": na,
        "notes": "All checks: ./check <ID> --tier quick|thorough, honour VERIF_SEED, exit 0/1/2 (2 = infrastructure, never a verdict). Genuine defects found and repaired are listed in known_findings.json as fixed entries.",
    }
    json.dump(m, open(os.path.join(ROOT, "MANIFEST.json"), "w"), indent=1)
    print("checks:", len(checks), "not_applicable:", len(na))
main()
