#!/usr/bin/env python3
"""usage: add_sens.py <psens log> <label>  -- append the `== <change> <ID> rc=<n>` lines of a psens/psens_all log to seeded/sens_rounds4to8.json"""
import json, os, re, sys
ROOT = os.path.dirname(os.path.dirname(os.path.abspath(__file__)))
path = os.path.join(ROOT, "seeded", "sens_rounds4to8.json")
d = json.load(open(path))
n = 0
for l in open(sys.argv[1]):
    m = re.match(r"== (\w+) (C\d\d) rc=(\d+)", l)
    if m:
        d.setdefault(m.group(1), {}).setdefault(m.group(2), []).append({"rc": int(m.group(3)), "log": sys.argv[2]})
        n += 1
json.dump(d, open(path, "w"), indent=1, sort_keys=True)
print("added", n)
