#!/usr/bin/env python3
"""Cross matrix: every seeded change x every check (quick tier), run against scratch copies of the crate.
usage: tools/matrix.py <repo-source-dir> <out.json> [seeded ids...]   (meant for `vp run --with-repo`)"""
import json, os, shutil, subprocess, sys, time
ROOT = os.path.dirname(os.path.dirname(os.path.abspath(__file__)))
src_repo = sys.argv[1]
out = sys.argv[2]
BASE = os.environ.get("MATRIX_DIR", "seeded")   # "benign" for the behaviour-preserving patches (every check must stay silent)
ids = sys.argv[3:] or sorted(os.listdir(os.path.join(ROOT, BASE)), key=lambda x: (x.startswith("own_"), x))
PROPS = [f"C{i:02d}" for i in range(1, 21)]
scratch = os.environ.get("MATRIX_SCRATCH", "/tmp/mx")
os.makedirs(scratch, exist_ok=True)
res = {}
if os.path.exists(out):
    res = json.load(open(out))
for sid in ids:
    patch = os.path.join(ROOT, BASE, sid, "patch.diff")
    if not os.path.exists(patch) or sid in res:
        continue
    repo = os.path.join(scratch, "repo")
    shutil.rmtree(repo, ignore_errors=True)
    shutil.copytree(src_repo, repo, ignore=shutil.ignore_patterns("target", ".git"))
    lock = "/repo/Cargo.lock"
    if os.path.exists(lock):
        shutil.copy(lock, os.path.join(repo, "Cargo.lock"))
    p = subprocess.run(["patch", "-p1", "-s", "-d", repo, "-i", patch], capture_output=True, text=True)
    if p.returncode != 0:
        res[sid] = {"error": "patch does not apply: " + p.stdout[-300:] + p.stderr[-300:]}
        continue
    env = dict(os.environ, VERIF_REPO=repo, VERIF_STAGE=os.path.join(scratch, "stage"), VERIF_SEED="0")
    row = {}
    t0 = time.time()
    # one parallel build of every harness binary against the patched crate (each check's own build is then a no-op)
    subprocess.run([os.path.join(ROOT, "check"), "C06", "--tier", "quick"], cwd=ROOT, env=env, capture_output=True, text=True)
    stage = env["VERIF_STAGE"]
    subprocess.run(["cargo", "build", "--release", "--bins"], cwd=stage, env=dict(env, CARGO_NET_OFFLINE="true"), capture_output=True, text=True)
    for pid in PROPS:
        q = subprocess.run([os.path.join(ROOT, "check"), pid, "--tier", "quick"], cwd=ROOT, env=env, capture_output=True, text=True)
        first = next((l for l in q.stderr.splitlines() if "failure:" in l), "")
        row[pid] = {"rc": q.returncode, "first_failure": first.strip()[:300]}
    res[sid] = {"checks": row, "wall_s": round(time.time() - t0)}
    json.dump(res, open(out, "w"), indent=1)
    print(sid, {k: v["rc"] for k, v in row.items() if v["rc"] != 0}, flush=True)
shutil.rmtree(os.path.join(scratch, "repo"), ignore_errors=True)
shutil.rmtree(os.path.join(scratch, "stage"), ignore_errors=True)
