#!/bin/bash
# run every check's quick (or $TIER) command once; summary line per property
cd /verif
for i in 01 02 03 04 05 06 07 08 09 10 11 12 13 14 15 16 17 18 19 20; do
  s=$(date +%s.%N); out=$(./check C$i --tier ${TIER:-quick} 2>&1); rc=$?; e=$(date +%s.%N)
  printf "C%s rc=%d %.1fs %s\n" $i $rc $(echo "$e - $s" | bc) "$(echo "$out" | grep -E "^C$i \[" | tail -1)"
  echo "$out" | grep -E "VIOLATION|INFRA|KNOWN" | head -3
done
