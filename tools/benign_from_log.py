#!/usr/bin/env python3
"""usage: benign_from_log.py <psens log (PDIR=benign)> <out.json>  -- renders `== <patch> <ID> rc=<n>` lines in the format of benign/matrix_*.json"""
import json, re, sys
res = {}
for l in open(sys.argv[1]):
    m = re.match(r"== (\w+) (C\d\d) rc=(\d+)\s*(.*)", l)
    if m:
        res.setdefault(m.group(1), {"checks": {}})["checks"][m.group(2)] = {"rc": int(m.group(3)), "first_failure": m.group(4).strip()[:300]}
json.dump(res, open(sys.argv[2], "w"), indent=1, sort_keys=True)
n = sum(len(v["checks"]) for v in res.values())
print(len(res), "patches", n, "runs; nonzero:", [(p, c, r["rc"]) for p, v in res.items() for c, r in v["checks"].items() if r["rc"] != 0])
