#!/bin/bash
# usage: sens.sh <patch.diff> <ID> [<ID>...]  -- apply a breaking change to /repo, run the quick checks, always revert.
P=$(realpath "$1"); shift
cd /repo && git diff --quiet || { echo "repo dirty"; exit 9; }
git -C /repo apply "$(realpath "$P")" || { echo "patch does not apply"; exit 9; }
trap 'git -C /repo checkout -- .' EXIT
cd /verif
for id in "$@"; do
  out=$(VERIF_SEED=${VERIF_SEED:-0} ./check $id --tier ${TIER:-quick} 2>/tmp/sens_err.txt); rc=$?
  echo "== $id rc=$rc  $(echo "$out" | grep -E "VIOLATION|INFRA" | head -2 | tr '\n' ' ')"
  grep -E "failure:" /tmp/sens_err.txt | head -2 | cut -c1-400
done
