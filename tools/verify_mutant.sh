#!/bin/bash
# usage: verify_mutant.sh C07 a   -- confirm an agent-made mutant in its scratch worktree and store it under /verif/seeded/
# checks: (1) patch applies, crate builds with all features, unedited test suite passes (default and feature set);
#         (2) demo fails with the patch; (3) demo passes without it.
ID=$1; X=$2; WT=/tmp/wt/$ID; OUT=$WT/_out; FEATS="${3:---features alloc,serde,zeroize,const-default}"
cd $WT || exit 9
git checkout -q -- src tests 2>/dev/null; rm -f tests/demo_*.rs
res() { echo "$ID/$X: $*"; }
git apply --check $OUT/$X.diff || { res "PATCH DOES NOT APPLY"; exit 1; }
git apply $OUT/$X.diff
t1=$(cargo test --offline 2>&1 | grep -E "^test result" | awk '{p+=$4; f+=$6} END{print p" passed "f" failed"}')
cargo test --offline 2>&1 | grep -qE "^error|FAILED|failed;.*[1-9] failed" && suite_default=FAIL || suite_default=ok
t2=$(cargo test --offline --features "alloc serde zeroize const-default" 2>&1 | grep -E "^test result" | awk '{p+=$4; f+=$6} END{print p" passed "f" failed"}')
cargo build --offline --features "alloc internals serde zeroize const-default" 2>&1 | grep -qE "^error" && build_all=FAIL || build_all=ok
cp $OUT/demo_$X.rs tests/demo_${ID}_$X.rs
dm=$(cargo test --offline $FEATS --test demo_${ID}_$X 2>&1 | grep -E "^test result|^error" | head -3 | tr '\n' ' ')
git checkout -q -- src
dc=$(cargo test --offline $FEATS --test demo_${ID}_$X 2>&1 | grep -E "^test result|^error" | head -3 | tr '\n' ' ')
rm -f tests/demo_${ID}_$X.rs
res "suite_default=[$t1] $suite_default | suite_features=[$t2] | build_all=$build_all"
res "demo with mutant:    $dm"
res "demo without mutant: $dc"
