#!/bin/bash
# usage: psens_all.sh <nstreams> <listfile> <logfile>   -- listfile lines: "<seeded-id> <ID> [<ID>...]"; the lines are dealt
# round-robin onto <nstreams> parallel psens.sh streams (scratch copies of the crate, staged harness per stream).
N=$1; L=$2; LOG=$3
for s in $(seq 1 $N); do
  ( i=0; while read -r line; do i=$((i+1)); [ $(( (i-1) % N + 1 )) -eq $s ] || continue; [ -n "$line" ] && FROZEN= /verif/tools/psens.sh $s $line >> $LOG.$s 2>&1; done < $L ) &
done
wait
cat $LOG.* > $LOG
