#!/usr/bin/env python3
"""My own deliberate breaks (the 'Sensitivity' lists of DESIGN.md section 5).

For each entry: copy /repo's sources to a scratch directory outside /repo and /verif, apply the textual change, keep it only
if the crate still builds with all features and the unedited default test suite passes, store it as
/verif/seeded/own_<id>/{patch.diff, meta.json}. Running the checks against them is tools/matrix.py's job.
"""
import json
import os
import shutil
import subprocess
import sys

ROOT = os.path.dirname(os.path.dirname(os.path.abspath(__file__)))
SCR = "/tmp/own_mut"

M = [
 # id, target properties, file, old, new, what
 ("from_slice_lt", ["C02"], "src/lib.rs", 'if slice.len() != N::USIZE {\n            panic!("slice.len() != N in GenericArray::from_slice");', 'if slice.len() < N::USIZE {\n            panic!("slice.len() != N in GenericArray::from_slice");', "from_slice accepts longer slices (!= relaxed to <)"),
 ("try_from_slice_lt", ["C02"], "src/lib.rs", "if slice.len() != N::USIZE {\n            return Err(LengthError);", "if slice.len() < N::USIZE {\n            return Err(LengthError);", "try_from_slice accepts longer slices"),
 ("from_mut_slice_ge", ["C02"], "src/lib.rs", "slice.len() == N::USIZE,\n            \"slice.len() != N in GenericArray::from_mut_slice\"", "slice.len() >= N::USIZE,\n            \"slice.len() != N in GenericArray::from_mut_slice\"", "from_mut_slice accepts longer slices (both mutable forms)"),
 ("map_no_position", ["C03", "C04"], "src/lib.rs", "                let value = ptr::read(src);\n\n                *position += 1;\n\n                f(value)", "                let value = ptr::read(src);\n\n                f(value)", "map never advances the consumed-element counter: every element double dropped"),
 ("pop_back_no_manuallydrop", ["C03", "C09"], "src/sequence.rs", "    fn pop_back(self) -> (Self::Shorter, T) {\n        let whole = ManuallyDrop::new(self);", "    fn pop_back(self) -> (Self::Shorter, T) {\n        let whole = self;", "pop_back forgets ManuallyDrop: source dropped as well"),
 ("zip_right_position", ["C03", "C04"], "src/lib.rs", "                    *left_position += 1;\n                    *right_position = *left_position;\n", "                    *left_position += 1;\n", "owned zip never advances the right consumer"),
 ("iter_drop_from_zero", ["C03", "C06"], "src/iter.rs", "            ptr::drop_in_place(self.as_mut_slice());", "            ptr::drop_in_place(self.array.get_unchecked_mut(..self.index_back));", "iterator Drop releases [0, back) instead of [front, back)"),
 ("generate_position_first", ["C04"], "src/lib.rs", "                    dst.write(f(i));\n                    *position += 1;", "                    *position += 1;\n                    dst.write(f(i));", "generate counts a slot as initialised before the closure has produced it"),
 ("fold_position_after", ["C04"], "src/lib.rs", "                let value = ptr::read(src);\n                *position += 1;\n                f(acc, value)", "                let value = ptr::read(src);\n                let r = f(acc, value);\n                *position += 1;\n                r", "fold advances the consumer only after the closure returned"),
 ("consumer_drop_noop", ["C04"], "src/internal.rs", "            ptr::drop_in_place(self.array.get_unchecked_mut(self.position..));", "            let _ = self.position;", "ArrayConsumer never releases the unconsumed suffix"),
 ("iter_fold_index_after", ["C04"], "src/iter.rs", "                let value = ptr::read(src);\n\n                *index += 1;\n\n                f(acc, value)", "                let value = ptr::read(src);\n\n                let r = f(acc, value);\n                *index += 1;\n                r", "iterator fold advances the front index after the closure"),
 ("iter_rfold_index_after", ["C04"], "src/iter.rs", "                let value = ptr::read(src);\n\n                *index_back -= 1;\n\n                f(acc, value)", "                let value = ptr::read(src);\n\n                let r = f(acc, value);\n                *index_back -= 1;\n                r", "iterator rfold retreats the back index after the closure"),
 ("last_via_next", ["C06"], "src/iter.rs", "        // Note, everything else will correctly drop first as `self` leaves scope.\n        self.next_back()", "        self.next()", "last() returns the first remaining element"),
 ("size_hint_no_upper", ["C06"], "src/iter.rs", "        (len, Some(len))", "        (len, None)", "size_hint loses its upper bound"),
 ("debug_whole_array", ["C06"], "src/iter.rs", "            .field(&self.as_slice())", "            .field(&&self.array[..])", "iterator Debug prints consumed slots too"),
 ("nth_min_len_minus_1", ["C06", "C05"], "src/iter.rs", "let next_index = self.index + cmp::min(n, self.len());", "let next_index = self.index + cmp::min(n, self.len().saturating_sub(1));", "nth(n >= len) leaves one element behind"),
 ("collect_no_excess_probe", ["C07"], "src/lib.rs", "if !builder.is_full() || iter.next().is_some() {", "if !builder.is_full() {", "try_from_iter silently truncates over-long sources"),
 ("collect_precheck_ge", ["C07"], "src/lib.rs", "(n, _) if n > N::USIZE => return Err(LengthError),\n            // if the upper bound is smaller than N, array cannot be filled\n            (_, Some(n)) if n < N::USIZE => return Err(LengthError),\n            _ => {}\n        }\n\n        unsafe {", "(n, _) if n >= N::USIZE => return Err(LengthError),\n            // if the upper bound is smaller than N, array cannot be filled\n            (_, Some(n)) if n < N::USIZE => return Err(LengthError),\n            _ => {}\n        }\n\n        unsafe {", "stack collect rejects sources whose lower bound equals N"),
 ("boxed_collect_take_plus_1", ["C07", "C15"], "src/impl_alloc.rs", "v.extend((&mut iter).take(N::USIZE));", "v.extend((&mut iter).take(N::USIZE + 1));", "boxed collect stores one element too many before checking"),
 ("from_iter_message", ["C07"], "src/lib.rs", 'panic!("GenericArray::from_iter expected {length} items");', 'panic!("GenericArray::from_iter needs {length} items");', "documented panic message changed"),
 ("generate_reversed", ["C08"], "src/lib.rs", "                builder_iter.enumerate().for_each(|(i, dst)| {\n                    dst.write(f(i));", "                builder_iter.enumerate().rev().for_each(|(i, dst)| {\n                    dst.write(f(i));", "generate calls f with descending indices"),
 ("fold_from_back", ["C08"], "src/lib.rs", "            array_iter.fold(init, |acc, src| {", "            array_iter.rev().fold(init, |acc, src| {", "owned fold is a right fold"),
 ("swap_remove_no_swap", ["C09"], "src/sequence.rs", "        array.swap(idx, N::USIZE - 1);\n", "", "swap_remove removes the last element whatever the index"),
 ("remove_assert_le", ["C09"], "src/sequence.rs", "    fn remove(self, idx: usize) -> (T, Self::Output) {\n        assert!(\n            idx < N::USIZE,", "    fn remove(self, idx: usize) -> (T, Self::Output) {\n        assert!(\n            idx <= N::USIZE,", "remove accepts idx == N"),
 ("remove_copy_one_past", ["C09"], "src/sequence.rs", "ptr::copy(dst.add(1), dst, N::USIZE - idx - 1);", "ptr::copy(dst.add(1), dst, N::USIZE - idx);", "remove shifts one element too many (reads one past the array, value then discarded)"),
 ("split_mut_add_k_plus_1", ["C09"], "src/sequence.rs", "            let head = &mut *(ptr_to_first as *mut _);\n            let tail = &mut *(ptr_to_first.add(K::USIZE) as *mut _);", "            let head = &mut *(ptr_to_first as *mut _);\n            let tail = &mut *(ptr_to_first.add(K::USIZE + 1) as *mut _);", "&mut split: tail starts one element late"),
 ("chunks_mut_ceil", ["C10", "C18"], "src/lib.rs", "        // NOTE: Using `slice.split_at_mut` adds an unnecessary assert\n        let num_chunks = slice.len() / N::USIZE; // integer division", "        // NOTE: Using `slice.split_at_mut` adds an unnecessary assert\n        let num_chunks = (slice.len() + N::USIZE - 1) / N::USIZE; // integer division", "chunks_from_slice_mut rounds the chunk count up"),
 ("slice_from_chunks_mut_plus_1", ["C10", "C18"], "src/lib.rs", "slice::from_raw_parts_mut(slice.as_mut_ptr() as *mut T, slice.len() * N::USIZE)", "slice::from_raw_parts_mut(slice.as_mut_ptr() as *mut T, slice.len() * N::USIZE + 1)", "slice_from_chunks_mut is one element too long"),
 ("send_without_bound", ["C12"], "src/lib.rs", "unsafe impl<T: Send, N: ArrayLength> Send for GenericArray<T, N> {}", "unsafe impl<T, N: ArrayLength> Send for GenericArray<T, N> {}", "Send for every element type"),
 ("as_slice_detached_lifetime", ["C12"], "src/lib.rs", "pub const fn as_slice(&self) -> &[T] {", "pub const fn as_slice<'b>(&self) -> &'b [T] {", "as_slice returns an unbounded lifetime"),
 ("from_slice_detached_lifetime", ["C12"], "src/lib.rs", "pub const fn from_slice(slice: &[T]) -> &GenericArray<T, N> {", "pub const fn from_slice<'b>(slice: &[T]) -> &'b GenericArray<T, N> {", "from_slice returns an unbounded lifetime"),
 ("split_mut_detached_lifetime", ["C12"], "src/sequence.rs", "unsafe impl<'a, T, N, K> Split<T, K> for &'a mut GenericArray<T, N>\nwhere\n    N: ArrayLength,\n    K: ArrayLength,\n    N: Sub<K>,\n    Diff<N, K>: ArrayLength,\n{\n    type First = &'a mut GenericArray<T, K>;\n    type Second = &'a mut GenericArray<T, Diff<N, K>>;", "unsafe impl<'a, T: 'static, N, K> Split<T, K> for &'a mut GenericArray<T, N>\nwhere\n    N: ArrayLength,\n    K: ArrayLength,\n    N: Sub<K>,\n    Diff<N, K>: ArrayLength,\n{\n    type First = &'a mut GenericArray<T, K>;\n    type Second = &'static mut GenericArray<T, Diff<N, K>>;", "&mut split hands out a 'static tail"),
 ("hash_no_prefix", ["C13"], "src/impls.rs", "Hash::hash(self.as_slice(), state)", "Hash::hash_slice(self.as_slice(), state)", "Hash without the slice's length prefix"),
 ("debug_ignores_flags", ["C13"], "src/impls.rs", "        self.as_slice().fmt(fmt)", "        write!(fmt, \"{:?}\", self.as_slice())", "Debug drops the caller's format flags"),
 ("hex_digits_left", ["C14"], "src/hex.rs", "            digits_left -= n;\n", "", "chunked hex path never decrements the digit budget"),
 ("hex_max_bytes_floor", ["C14"], "src/hex.rs", "let max_bytes = (max_digits >> 1) + (max_digits & 1);", "let max_bytes = max_digits >> 1;", "odd precision loses its last high nibble for N >= 16"),
 ("default_boxed_via_stack", ["C15"], "src/impl_alloc.rs", "        Box::<GenericArray<T, N>>::generate(|_| T::default())", "        Box::new(GenericArray::<T, N>::default())", "default_boxed builds the array on the stack first"),
 ("tryfrom_vec_lt", ["C15"], "src/impl_alloc.rs", "        if v.len() != N::USIZE {\n            return Err(crate::LengthError);", "        if v.len() < N::USIZE {\n            return Err(crate::LengthError);", "TryFrom<Vec> accepts longer vectors and truncates"),
 ("serde_no_surplus_probe", ["C17"], "src/impl_serde.rs", "if seq.size_hint() != Some(0) && seq.next_element::<Dummy>()?.is_some() {", "if false {", "deserialisation no longer probes for surplus input"),
 ("serde_hint_gt", ["C17"], "src/impl_serde.rs", "Some(n) if n != N::USIZE => {", "Some(n) if n > N::USIZE => {", "an up-front hint smaller than N is no longer rejected"),
 ("zeroize_skips_first", ["C19"], "src/impl_zeroize.rs", "        self.as_mut_slice().iter_mut().zeroize()", "        if let Some(s) = self.as_mut_slice().get_mut(1..) {\n            s.iter_mut().zeroize()\n        }", "zeroize skips element 0"),
 ("const_default_parent_reuse", ["C19", "C01"], "src/impl_const_default.rs", "impl<T, U: ConstDefault> ConstDefault for GenericArrayImplEven<T, U> {\n    const DEFAULT: Self = Self {\n        parent1: U::DEFAULT,\n        parent2: U::DEFAULT,", "impl<T, U: ConstDefault> ConstDefault for GenericArrayImplEven<T, U> {\n    const DEFAULT: Self = Self {\n        parent1: U::DEFAULT,\n        parent2: unsafe { core::mem::zeroed() },", "even node default-initialises only its first half"),
 ("box_arr_repeat_plus_1", ["C20", "C15"], "src/arr.rs", "try_from_vec($crate::alloc::vec![$x; <$N as $crate::typenum::Unsigned>::USIZE]).unwrap()", "try_from_vec($crate::alloc::vec![$x; <$N as $crate::typenum::Unsigned>::USIZE + 1]).unwrap()", "box_arr![x; N] builds N+1 elements (its unwrap must fire)"),
 ("uterm_unit_storage", ["C01"], "src/lib.rs", "    type ArrayType<T> = [T; 0];\n}", "    type ArrayType<T> = ();\n}", "zero-length base case loses T's alignment (the historical 0.14.3 bug)"),
]


def sh(cmd, cwd=None):
    return subprocess.run(cmd, cwd=cwd, shell=isinstance(cmd, str), stdout=subprocess.PIPE, stderr=subprocess.STDOUT, text=True)


def main():
    only = set(sys.argv[1:])
    shutil.rmtree(SCR, ignore_errors=True)
    os.makedirs(SCR)
    base = os.path.join(SCR, "a")
    shutil.copytree("/repo", base, ignore=shutil.ignore_patterns("target", ".git"))
    shutil.copy("/repo/Cargo.lock", os.path.join(base, "Cargo.lock"))
    kept = 0
    for (mid, props, path, old, new, what) in M:
        if only and mid not in only:
            continue
        b = os.path.join(SCR, "b")
        shutil.rmtree(b, ignore_errors=True)
        shutil.copytree(base, b)
        p = os.path.join(b, path)
        text = open(p).read()
        if mid == "uterm_unit_storage":
            new_text = text.replace(old, new, 1).replace("impl<T> Sealed for [T; 0] {}", "impl<T> Sealed for [T; 0] {}")
            open(os.path.join(b, "src/internal.rs"), "a").write("\nimpl Sealed for () {}\n")
        else:
            new_text = text.replace(old, new, 1)
        if text.count(old) < 1 or new_text == text:
            print(f"{mid}: pattern not found")
            continue
        open(p, "w").write(new_text)
        # cargo's freshness check is mtime based: a restored (older) file would otherwise leave the previous mutant's artifact in place
        sh(f"find {b}/src {b}/tests -type f -exec touch {{}} +")
        d = sh(f"cd {SCR} && diff -ru a b --exclude=target --exclude=Cargo.lock")
        env_t = f"cd {b} && CARGO_TARGET_DIR={SCR}/target cargo"
        r1 = sh(f"{env_t} build --offline --features 'alloc internals serde zeroize const-default' 2>&1 | tail -3")
        if "error" in r1.stdout:
            print(f"{mid}: does not build: {r1.stdout.strip()[-200:]}")
            continue
        r2 = sh(f"{env_t} test --offline 2>&1 | grep -E '^test result|^error|FAILED' ")
        ok = "FAILED" not in r2.stdout and "error" not in r2.stdout and "test result: ok" in r2.stdout
        if not ok:
            print(f"{mid}: the existing test suite notices it (not kept)", r2.stdout[-300:].replace("\n", " | "))
            continue
        dst = os.path.join(ROOT, "seeded", "own_" + mid)
        os.makedirs(dst, exist_ok=True)
        open(os.path.join(dst, "patch.diff"), "w").write(d.stdout)
        json.dump({"property": props[0], "also": props[1:], "origin": "my own deliberate break (DESIGN.md section 5 sensitivity lists)", "what": what,
                   "confirmed_by_me": "builds with all features; `cargo test --offline` (default suite incl. doctests) passes with it"},
                  open(os.path.join(dst, "meta.json"), "w"), indent=1)
        kept += 1
        print(f"{mid}: kept")
    shutil.rmtree(SCR, ignore_errors=True)
    print("kept", kept)


main()
