#!/bin/bash
# usage: psens.sh <stream> <seeded-id> <ID> [<ID>...]  -- like sens.sh but on a scratch copy of the crate (/tmp/wt/s<stream>) with a
# staged harness (/tmp/stage_s<stream>), so that several streams can run side by side and /repo is not touched.
S=$1; M=$2; shift 2
WT=/tmp/wt/s$S; ST=/tmp/stage_s$S
[ -d $WT ] || { git -C /repo worktree add -q --detach $WT && cp /repo/Cargo.lock $WT/; }
git -C $WT checkout -q -- . ; git -C $WT apply /verif/${PDIR:-seeded}/$M/patch.diff || { echo "$M: patch does not apply"; exit 9; }
cd /verif
for id in "$@"; do
  out=$(VERIF_SEED=${VERIF_SEED:-0} VERIF_STAGE_FROZEN=${FROZEN:-1} VERIF_REPO=$WT VERIF_STAGE=$ST ./check $id --tier ${TIER:-quick} 2>/tmp/psens_err_$S.txt); rc=$?
  echo "== $M $id rc=$rc  $(echo "$out" | grep -E "VIOLATION|INFRA" | head -2 | tr '\n' ' ' | cut -c1-200)"
  grep -E "failure:" /tmp/psens_err_$S.txt | head -2 | cut -c1-300
done
git -C $WT checkout -q -- .
