#!/usr/bin/env python3
"""Renders seeded/matrix*.json as the markdown table of DESIGN.md section 12 (stdout)."""
import json, os, sys
ROOT = os.path.dirname(os.path.dirname(os.path.abspath(__file__)))
rows = {}
for f in ("matrix.json", "matrix_round2.json", "matrix_extra.json"):
    p = os.path.join(ROOT, "seeded", f)
    if os.path.exists(p):
        rows.update(json.load(open(p)))
def what(sid):
    mp = os.path.join(ROOT, "seeded", sid, "meta.json")
    if not os.path.exists(mp):
        return "", ""
    m = json.load(open(mp))
    return m.get("property", ""), m.get("what", "")
print("| change | breaks | caught by (exit 1) | infrastructure (exit 2) |")
print("|---|---|---|---|")
missed = []
for sid in sorted(rows, key=lambda x: (x.startswith("own_"), x)):
    r = rows[sid]
    if "checks" not in r:
        print(f"| {sid} | | {r.get('error','')} | |")
        continue
    prop, w = what(sid)
    c1 = [k for k, v in r["checks"].items() if v["rc"] == 1]
    c2 = [k for k, v in r["checks"].items() if v["rc"] == 2]
    own = prop in c1
    also = json.load(open(os.path.join(ROOT, "seeded", sid, "meta.json"))).get("also", []) if os.path.exists(os.path.join(ROOT, "seeded", sid, "meta.json")) else []
    if not own and not any(a in c1 for a in also):
        missed.append(sid)
    print(f"| {sid} | {prop}{' ' + w if w else ''} | {', '.join(c1) or '-'} | {', '.join(c2) or '-'} |")
print()
print("not caught by the check of their own property:", ", ".join(missed) or "none")
