#!/usr/bin/env python3
"""Replaces the per-change table at the end of DESIGN.md section 13.3 by the current output of mk_round_table.py."""
import os, subprocess
ROOT = os.path.dirname(os.path.dirname(os.path.abspath(__file__)))
p = os.path.join(ROOT, "DESIGN.md")
s = open(p).read()
head = "| change | written against | first measurement | after hardening |"
i = s.rindex(head)
table = subprocess.run(["python3", os.path.join(ROOT, "tools", "mk_round_table.py")], capture_output=True, text=True).stdout
open(p, "w").write(s[:i] + table.rstrip("\n") + "\n")
print("table rows:", table.count("\n") - 2)
