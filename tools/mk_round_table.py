#!/usr/bin/env python3
"""Renders the per-change results of rounds 3-6 (seeded/matrix_E.json = full cross matrix of round 3;
seeded/sens_rounds4to8.json = runs of the check(s) of the property a change was written against) as markdown (stdout)."""
import json, os
ROOT = os.path.dirname(os.path.dirname(os.path.abspath(__file__)))
def meta(sid):
    p = os.path.join(ROOT, "seeded", sid, "meta.json")
    return json.load(open(p)) if os.path.exists(p) else {}
print("| change | written against | first measurement | after hardening |")
print("|---|---|---|---|")
mE = {}
p = os.path.join(ROOT, "seeded", "matrix_E.json")
if os.path.exists(p):
    mE = json.load(open(p))
sens = json.load(open(os.path.join(ROOT, "seeded", "sens_rounds4to8.json")))
ids = sorted(set(mE) | set(sens))
word = {0: "silent", 1: "reported", 2: "infrastructure (exit 2)"}
# the check had already been extended when the first run against these changes started
PRE = {"Q17_a", "Q17_b", "Q14_a", "Q14_b", "Q18_a", "Q01_b", "E20_a", "E20_b", "E18_a", "E18_b", "E01_a", "E01_b", "E11_a", "E19_b", "H18_a", "H18_b", "H20_a"}
for sid in ids:
    prop = meta(sid).get("property", "?")
    first, last = "", ""
    if sid in mE and "checks" in mE[sid]:
        c1 = [k for k, v in mE[sid]["checks"].items() if v["rc"] == 1]
        first = "cross matrix (all twenty quick checks, after the round-3 hardening): reported by " + (", ".join(c1) or "none")
    if sid in sens:
        parts_first, parts_last = [], []
        for c, rs in sorted(sens[sid].items()):
            parts_first.append(f"{c} {word[rs[0]['rc']]}")
            parts_last.append(f"{c} {word[rs[-1]['rc']]}")
        if not first:
            first = "; ".join(parts_first)
            if sid in PRE:
                first = "not measured before the check was extended (by my reading the old generator could not form the case)"
        last = "; ".join(parts_last)
    note = meta(sid).get("note", "")
    print(f"| {sid} | {prop} | {first} | {last}{' - ' + note if note else ''} |")
