#!/bin/bash
# usage: verify_benign.sh R01 p1  -- a behaviour-preserving patch must apply, build with all features and keep both suites green
ID=$1; X=$2; WT=/tmp/wt/$ID; OUT=$WT/_out
cd $WT || exit 9
git checkout -q -- src tests 2>/dev/null
git apply --check $OUT/$X.diff || { echo "$ID/$X: PATCH DOES NOT APPLY"; exit 1; }
git apply $OUT/$X.diff
t1=$(cargo test --offline 2>&1 | grep -E "^test result" | awk '{p+=$4; f+=$6} END{print p" passed "f" failed"}')
t2=$(cargo test --offline --features "alloc serde zeroize const-default" 2>&1 | grep -E "^test result" | awk '{p+=$4; f+=$6} END{print p" passed "f" failed"}')
cargo build --offline --features "alloc internals serde zeroize const-default faster-hex" 2>&1 | grep -qE "^error" && b=FAIL || b=ok
git checkout -q -- src
echo "$ID/$X: default=[$t1] features=[$t2] build_all=$b"
