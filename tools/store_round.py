#!/usr/bin/env python3
"""usage: store_round.py <round-no> <log-glob-prefix e.g. /tmp/wt/v5> [ID_x=flags ...] -- copies verified agent mutants from /tmp/wt/<ID>/_out into seeded/<ID>_<x>/"""
import glob, json, os, re, shutil, sys
ROOT = os.path.dirname(os.path.dirname(os.path.abspath(__file__)))
rnd, prefix = int(sys.argv[1]), sys.argv[2]
flags = dict(a.split("=", 1) for a in sys.argv[3:])
logs = {}
for f in glob.glob(prefix + "*.log"):
    for l in open(f):
        m = re.match(r'([A-Z]\d\d)/(\w): (.*)', l)
        if m:
            logs.setdefault((m.group(1), m.group(2)), []).append(m.group(3).strip())
for (d, x), res in sorted(logs.items()):
    out = f'/tmp/wt/{d}/_out'
    dst = os.path.join(ROOT, 'seeded', f'{d}_{x}')
    if not os.path.exists(f'{out}/{x}.diff'):
        continue
    ok = any("FAILED" in r or "error" in r for r in res if r.startswith("demo with mutant")) and any("test result: ok" in r for r in res if r.startswith("demo without mutant")) and "suite_default" in res[0] and "0 failed] ok" in res[0]
    if not ok:
        print("NOT CONFIRMED:", d, x, res)
        continue
    os.makedirs(dst, exist_ok=True)
    shutil.copy(f'{out}/{x}.diff', f'{dst}/patch.diff')
    shutil.copy(f'{out}/demo_{x}.rs', f'{dst}/demo.rs')
    shutil.copy(f'{out}/notes.md', f'{dst}/agent_notes.md')
    meta = {"property": ("C" + d[1:]) if os.path.exists(os.path.join(ROOT, "tools", "prompts", "round%d_break.txt" % rnd)) else "see agent_notes.md", "mutant": x, "round": rnd,
            "origin": ("independent sub-agent given only the text of the property and a scratch git worktree of /repo (nothing from /verif); brief: tools/prompts/round%d_break.txt" % rnd) if os.path.exists(os.path.join(ROOT, "tools", "prompts", "round%d_break.txt" % rnd)) else ("independent sub-agent assigned source files, given the twenty property statements and a scratch git worktree of /repo (nothing from /verif); brief: tools/prompts/round%d_by_file.txt" % rnd),
            "needs_to_manifest": f"see agent_notes.md (section for mutant {x.upper()})",
            "demo_flags": flags.get(f"{d}_{x}", "(default profile, no features)"),
            "confirmed_by_me": {"how": "tools/verify_mutant.sh in the scratch worktree: git apply patch; cargo test --offline (all targets incl. doctests); cargo test --offline --features 'alloc serde zeroize const-default'; cargo build with all features incl. internals; demo as tests/demo_*.rs with the patch (must fail) and without (must pass), using demo_flags", "results": res},
            "detected_by": {}}
    json.dump(meta, open(f'{dst}/meta.json', 'w'), indent=1)
    print("stored", d, x)
