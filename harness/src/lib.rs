//! Shared core of the verification harness (see /verif/DESIGN.md sections 2-4).
pub mod engine;
pub mod lens;
pub mod ralloc;
pub mod registry;
pub mod script;

pub use generic_array;
pub use generic_array::typenum;
