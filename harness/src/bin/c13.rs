#[path = "../props/p13.rs"]
mod p13;
fn main() {
    p13::main()
}
