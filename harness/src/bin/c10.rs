#[path = "../props/p10.rs"]
mod p10;
fn main() {
    p10::main()
}
