#![recursion_limit = "1024"]
#[path = "../props/p11.rs"]
mod p11;
fn main() {
    p11::main()
}
