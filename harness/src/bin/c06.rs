#[path = "../props/p06.rs"]
mod p06;
fn main() {
    p06::main()
}
