#[path = "../props/p08.rs"]
mod p08;
fn main() {
    p08::main()
}
