#[path = "../props/p04.rs"]
mod p04;
fn main() {
    p04::main()
}
