#[path = "../props/p16.rs"]
mod p16;
fn main() {
    p16::main()
}
