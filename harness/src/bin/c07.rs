#[path = "../props/p07.rs"]
mod p07;
fn main() {
    p07::main()
}
