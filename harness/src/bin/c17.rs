#[path = "../props/p17.rs"]
mod p17;
fn main() {
    p17::main()
}
