#[path = "../props/p05.rs"]
mod p05;
fn main() {
    p05::main()
}
