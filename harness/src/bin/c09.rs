#[path = "../props/p09.rs"]
mod p09;
fn main() {
    p09::main()
}
