#[path = "../props/p15.rs"]
mod p15;
fn main() {
    p15::main()
}
