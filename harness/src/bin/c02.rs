#[path = "../props/p02.rs"]
mod p02;
fn main() {
    p02::main()
}
