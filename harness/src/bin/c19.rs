#[path = "../props/p19.rs"]
mod p19;
fn main() {
    p19::main()
}
