#[path = "../props/p03.rs"]
mod p03;
fn main() {
    p03::main()
}
