#[path = "../props/p14.rs"]
mod p14;
fn main() {
    p14::main()
}
