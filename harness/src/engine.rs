//! Case accounting, parallel workers, proptest glue, evidence and replay files.

use crate::registry::{self, Injected};
use proptest::strategy::{Strategy, ValueTree};
use proptest::test_runner::{Config, RngAlgorithm, TestCaseError, TestError, TestRng, TestRunner};
use serde::Serialize;
use serde_json::{json, Value};
use std::cell::Cell;
use std::collections::hash_map::DefaultHasher;
use std::collections::{BTreeMap, HashSet};
use std::hash::{Hash, Hasher};
use std::panic::{self, AssertUnwindSafe};
use std::path::PathBuf;
use std::time::Instant;

#[derive(Clone, Copy, PartialEq, Eq, Debug)]
pub enum Tier {
    Quick,
    Thorough,
}

#[derive(Clone, Debug)]
pub struct Args {
    pub tier: Tier,
    pub seed: u64,
    pub replay: Option<PathBuf>,
    pub replay_many: Option<PathBuf>,
    pub workers: usize,
    pub journal: bool,
    pub dump: Option<(PathBuf, usize)>,
    pub extra: Vec<String>,
}

impl Args {
    pub fn parse() -> Args {
        let mut a = Args {
            tier: match std::env::var("VERIF_TIER").as_deref() {
                Ok("thorough") => Tier::Thorough,
                _ => Tier::Quick,
            },
            seed: std::env::var("VERIF_SEED").ok().and_then(|s| s.trim().parse::<i128>().ok()).map(|v| v as u64).unwrap_or(0),
            replay: None,
            replay_many: None,
            workers: std::env::var("VERIF_WORKERS").ok().and_then(|s| s.parse().ok()).unwrap_or(16),
            journal: std::env::var("VERIF_JOURNAL").is_ok(),
            dump: None,
            extra: vec![],
        };
        let mut it = std::env::args().skip(1);
        while let Some(x) = it.next() {
            match x.as_str() {
                "--tier" => {
                    a.tier = match it.next().as_deref() {
                        Some("thorough") => Tier::Thorough,
                        _ => Tier::Quick,
                    }
                }
                "--replay" => a.replay = it.next().map(PathBuf::from),
                "--replay-many" => a.replay_many = it.next().map(PathBuf::from),
                "--seed" => a.seed = it.next().and_then(|s| s.parse().ok()).unwrap_or(0),
                "--workers" => a.workers = it.next().and_then(|s| s.parse().ok()).unwrap_or(16),
                "--dump" => {
                    let p = it.next().map(PathBuf::from).unwrap();
                    let n = it.next().and_then(|s| s.parse().ok()).unwrap_or(100);
                    a.dump = Some((p, n));
                }
                other => a.extra.push(other.to_string()),
            }
        }
        a
    }
    pub fn thorough(&self) -> bool {
        self.tier == Tier::Thorough
    }
    /// scale a quick-tier count for the thorough tier
    pub fn scale(&self, quick: u64, factor: u64) -> u64 {
        if self.thorough() {
            quick * factor
        } else {
            quick
        }
    }
}

thread_local! {
    static QUIET: Cell<u32> = const { Cell::new(0) };
}

/// Install a panic hook that is silent for injected faults and for panics the harness expects.
pub fn install_hook() {
    let prev = panic::take_hook();
    panic::set_hook(Box::new(move |info| {
        if info.payload().is::<Injected>() {
            return;
        }
        if QUIET.with(|q| q.get()) > 0 {
            return;
        }
        prev(info);
    }));
}

/// Run `f` with panic output suppressed (no catching).
pub fn quiet<R>(f: impl FnOnce() -> R) -> R {
    QUIET.with(|q| q.set(q.get() + 1));
    let r = panic::catch_unwind(AssertUnwindSafe(f));
    QUIET.with(|q| q.set(q.get() - 1));
    match r {
        Ok(v) => v,
        Err(p) => panic::resume_unwind(p),
    }
}

#[derive(Debug, Clone)]
pub struct Caught {
    pub injected: bool,
    pub msg: String,
}

/// Run `f`, catching a panic. Panic output is suppressed.
pub fn catch<R>(f: impl FnOnce() -> R) -> Result<R, Caught> {
    QUIET.with(|q| q.set(q.get() + 1));
    let r = panic::catch_unwind(AssertUnwindSafe(f));
    QUIET.with(|q| q.set(q.get() - 1));
    r.map_err(|p| {
        if let Some(i) = p.downcast_ref::<Injected>() {
            Caught { injected: true, msg: format!("injected:{}", i.0) }
        } else if let Some(s) = p.downcast_ref::<String>() {
            Caught { injected: false, msg: s.clone() }
        } else if let Some(s) = p.downcast_ref::<&'static str>() {
            Caught { injected: false, msg: s.to_string() }
        } else {
            Caught { injected: false, msg: "<non-string panic payload>".into() }
        }
    })
}

#[derive(Debug, Clone, Serialize)]
pub struct Failure {
    pub case: Value,
    pub msg: String,
}

/// Per-worker accumulator of what was explored.
#[derive(Default)]
pub struct Acc {
    pub evals: u64,
    pub nontrivial: HashSet<u64>,
    pub classes: BTreeMap<String, u64>,
    pub samples: Vec<Value>,
    sample_seen: u64,
    pub failures: Vec<Failure>,
    pub frozen: bool,
    pub journal: Option<PathBuf>,
    pub dump: Vec<Value>,
    pub dump_limit: usize,
    /// secondary distinct counters (coverage instruments), reported as `distinct_<name>`
    pub aux: BTreeMap<String, HashSet<u64>>,
}

/// Cases dumped for the (slow) Miri replay can be restricted to small lengths: VERIF_DUMP_MAX_N bounds the case's
/// top-level `n` (or the first number inside its `op`).
fn dump_ok<T: Serialize>(t: &T) -> bool {
    thread_local! { static MAXN: Option<u64> = std::env::var("VERIF_DUMP_MAX_N").ok().and_then(|s| s.parse().ok()); }
    let Some(max) = MAXN.with(|m| *m) else { return true };
    let Ok(v) = serde_json::to_value(t) else { return true };
    let mut lens: Vec<u64> = vec![];
    for key in ["n", "m", "l"] {
        if let Some(x) = v.get(key).and_then(|x| x.as_u64()) {
            lens.push(x);
        }
    }
    if let Some(op) = v.get("op").and_then(|o| o.as_object()) {
        for val in op.values() {
            match val {
                Value::Array(a) => lens.extend(a.iter().take(1).filter_map(|x| x.as_u64())),
                Value::Number(x) => lens.extend(x.as_u64()),
                _ => {}
            }
        }
    }
    lens.iter().all(|x| *x <= max)
}

pub fn hash_of<T: Hash>(t: &T) -> u64 {
    let mut h = DefaultHasher::new();
    t.hash(&mut h);
    h.finish()
}

impl Acc {
    pub fn new() -> Acc {
        Acc::default()
    }
    /// Count one executed case. `key` identifies the case for distinctness.
    pub fn count<K: Hash>(&mut self, nontrivial: bool, key: &K) {
        if self.frozen {
            return;
        }
        self.evals += 1;
        if nontrivial {
            self.nontrivial.insert(hash_of(key));
        }
    }
    pub fn class(&mut self, name: &str) {
        if self.frozen {
            return;
        }
        *self.classes.entry(name.to_string()).or_insert(0) += 1;
    }
    pub fn aux<K: Hash>(&mut self, name: &str, key: &K) {
        if self.frozen {
            return;
        }
        self.aux.entry(name.to_string()).or_default().insert(hash_of(key));
    }
    pub fn class_n(&mut self, name: &str, n: u64) {
        if self.frozen {
            return;
        }
        *self.classes.entry(name.to_string()).or_insert(0) += n;
    }
    /// Offer a case as a sample: keeps the first two and then a sparse selection.
    pub fn sample<T: Serialize>(&mut self, t: &T) {
        if self.frozen {
            return;
        }
        self.sample_seen += 1;
        let n = self.sample_seen;
        if self.dump_limit > 0 && dump_ok(t) {
            // deterministic reservoir sample of the cases seen by this worker
            if self.dump.len() < self.dump_limit {
                if let Ok(v) = serde_json::to_value(t) {
                    self.dump.push(v);
                }
            } else {
                let j = (n.wrapping_mul(0x9E37_79B9_7F4A_7C15) >> 17) % n;
                if (j as usize) < self.dump_limit {
                    if let Ok(v) = serde_json::to_value(t) {
                        self.dump[j as usize] = v;
                    }
                }
            }
        }
        if n <= 2 || (n.is_power_of_two() && n >= 64) {
            if let Ok(v) = serde_json::to_value(t) {
                if self.samples.len() >= 8 {
                    self.samples.remove(2);
                }
                self.samples.push(v);
            }
        }
    }
    pub fn fail<T: Serialize>(&mut self, case: &T, msg: String) {
        if self.failures.len() < 8 {
            self.failures.push(Failure { case: serde_json::to_value(case).unwrap_or(Value::Null), msg });
        }
    }
    /// journal mode: record the case about to run so that a crash can be attributed
    pub fn begin<T: Serialize>(&mut self, case: &T) {
        if let Some(p) = &self.journal {
            let _ = std::fs::write(p, serde_json::to_vec(case).unwrap_or_default());
        }
    }
    /// Run one enumerated (already minimal) case.
    pub fn run<T: Serialize>(&mut self, case: &T, f: impl FnOnce(&T, &mut Acc) -> Result<(), String>) {
        self.begin(case);
        self.sample(case);
        let r = catch(|| f(case, self));
        match r {
            Ok(Ok(())) => {}
            Ok(Err(m)) => self.fail(case, m),
            Err(c) => self.fail(case, format!("unexpected panic escaped the executor: {}", c.msg)),
        }
    }
    pub fn merge(&mut self, o: Acc) {
        self.evals += o.evals;
        self.nontrivial.extend(o.nontrivial);
        for (k, v) in o.classes {
            *self.classes.entry(k).or_insert(0) += v;
        }
        for s in o.samples {
            if self.samples.len() < 12 {
                self.samples.push(s);
            }
        }
        for f in o.failures {
            if self.failures.len() < 16 {
                self.failures.push(f);
            }
        }
        self.dump.extend(o.dump);
        for (k, v) in o.aux {
            self.aux.entry(k).or_default().extend(v);
        }
    }
}

pub fn rng_for(seed: u64, stream: u64) -> TestRng {
    let mut bytes = [0u8; 32];
    bytes[..8].copy_from_slice(&seed.to_le_bytes());
    bytes[8..16].copy_from_slice(&stream.to_le_bytes());
    bytes[16..24].copy_from_slice(&0x9E37_79B9_7F4A_7C15u64.to_le_bytes());
    TestRng::from_seed(RngAlgorithm::ChaCha, &bytes)
}

/// Generated search with shrinking. `f` is re-run by proptest while shrinking; accounting stops at
/// the first failure (the accumulator is frozen).
pub fn prop_search<S, F>(acc: &mut Acc, seed: u64, stream: u64, cases: u32, strat: &S, mut f: F)
where
    S: Strategy,
    S::Value: Serialize + Clone,
    F: FnMut(&S::Value, &mut Acc) -> Result<(), String>,
{
    let cfg = Config { cases, failure_persistence: None, max_shrink_iters: 20_000, max_global_rejects: 1 << 30, ..Config::default() };
    let mut runner = TestRunner::new_with_rng(cfg, rng_for(seed, stream));
    let acc_cell = std::cell::RefCell::new(&mut *acc);
    let f_cell = std::cell::RefCell::new(&mut f);
    let result = runner.run(strat, |v| {
        let mut fg = f_cell.borrow_mut();
        let f: &mut F = &mut **fg;
        let mut guard = acc_cell.borrow_mut();
        let acc: &mut Acc = &mut **guard;
        acc.begin(&v);
        acc.sample(&v);
        let r = catch(|| f(&v, acc));
        match r {
            Ok(Ok(())) => Ok(()),
            Ok(Err(m)) => {
                acc.frozen = true;
                Err(TestCaseError::fail(m))
            }
            Err(c) => {
                acc.frozen = true;
                Err(TestCaseError::fail(format!("unexpected panic escaped the executor: {}", c.msg)))
            }
        }
    });
    drop(acc_cell);
    drop(f_cell);
    acc.frozen = false;
    match result {
        Ok(()) => {}
        Err(TestError::Fail(reason, value)) => acc.fail(&value, format!("{}", reason.message())),
        Err(TestError::Abort(reason)) => acc.fail(&Value::Null, format!("proptest aborted: {}", reason.message())),
    }
}

/// Draw one value from a strategy with the given rng stream (no shrinking); for value generation
/// inside enumerations.
pub fn draw<S: Strategy>(runner: &mut TestRunner, strat: &S) -> S::Value {
    strat.new_tree(runner).expect("strategy").current()
}

pub fn runner_for(seed: u64, stream: u64) -> TestRunner {
    TestRunner::new_with_rng(Config { failure_persistence: None, ..Config::default() }, rng_for(seed, stream))
}

/// Run `f(worker_index, acc)` on `workers` threads with big stacks and merge the accumulators.
pub fn parallel<F>(args: &Args, prop: &str, f: F) -> Acc
where
    F: Fn(usize, usize, &mut Acc) + Sync,
{
    let workers = args.workers.max(1);
    let mut total = Acc::new();
    let per_dump = args.dump.as_ref().map(|(_, n)| n.div_ceil(workers)).unwrap_or(0);
    std::thread::scope(|s| {
        let mut hs = vec![];
        for w in 0..workers {
            let f = &f;
            let journal = if args.journal { Some(work_dir(prop).join(format!("current.{w}.json"))) } else { None };
            let h = std::thread::Builder::new()
                .stack_size(256 << 20)
                .spawn_scoped(s, move || {
                    let mut acc = Acc::new();
                    acc.journal = journal;
                    acc.dump_limit = per_dump;
                    f(w, workers, &mut acc);
                    acc
                })
                .unwrap();
            hs.push(h);
        }
        for h in hs {
            match h.join() {
                Ok(a) => total.merge(a),
                Err(_) => total.fail(&Value::Null, "worker thread panicked outside a case".into()),
            }
        }
    });
    total
}

pub fn verif_root() -> PathBuf {
    std::env::var("VERIF_ROOT").map(PathBuf::from).unwrap_or_else(|_| PathBuf::from("/verif"))
}

pub fn work_dir(prop: &str) -> PathBuf {
    // the driver names the scratch root (per-stream for sensitivity runs on staged copies); default: <verif>/work
    let p = std::env::var_os("VERIF_WORK_ROOT").map(PathBuf::from).unwrap_or_else(|| verif_root().join("work")).join(prop);
    let _ = std::fs::create_dir_all(&p);
    p
}

pub struct Report<'a> {
    pub prop: &'a str,
    pub level: &'a str,
    pub rule: &'a str,
    pub exhaustive: bool,
    pub assumptions: Vec<String>,
    pub extra: Value,
}

/// Write evidence + replay files, print VIOLATION lines, and exit with the contract's status.
pub fn finish(args: &Args, started: Instant, acc: Acc, rep: Report) -> ! {
    let root = verif_root();
    let mut violation_lines = vec![];
    let mut failure_records: Vec<Value> = vec![];
    let features: Vec<String> = std::env::var("VERIF_FEATURES").map(|s| s.split(',').filter(|x| !x.is_empty()).map(String::from).collect()).unwrap_or_default();
    if !acc.failures.is_empty() {
        let dir = root.join("replays").join(rep.prop);
        let _ = std::fs::create_dir_all(&dir);
        for f in &acc.failures {
            let body = json!({"property": rep.prop, "case": f.case, "message": f.msg, "features": features});
            let text = serde_json::to_string_pretty(&body).unwrap();
            let name = format!("{:016x}.json", hash_of(&serde_json::to_string(&f.case).unwrap_or_default()));
            let path = dir.join(name);
            let _ = std::fs::write(&path, text);
            eprintln!("FAIL property={} msg={}", rep.prop, f.msg);
            failure_records.push(json!({"msg": f.msg, "replay": path.display().to_string()}));
            violation_lines.push(format!("VIOLATION property={} replay={}", rep.prop, path.display()));
        }
    }
    if let Some((p, _)) = &args.dump {
        let _ = std::fs::write(p, serde_json::to_vec(&acc.dump).unwrap());
    }
    let out = std::env::var("VERIF_EVIDENCE_OUT")
        .map(PathBuf::from)
        .unwrap_or_else(|_| root.join("evidence").join(format!("{}.json", rep.prop)));
    if let Some(d) = out.parent() {
        let _ = std::fs::create_dir_all(d);
    }
    let mut coverage = json!({
        "evaluations": acc.evals,
        "distinct_nontrivial": acc.nontrivial.len(),
        "rule": rep.rule,
        "samples": acc.samples,
        "classes": acc.classes,
        "exhaustive": rep.exhaustive,
    });
    if let Some(c) = coverage.as_object_mut() {
        for (k, v) in &acc.aux {
            c.insert(format!("distinct_{k}"), json!(v.len()));
        }
    }
    if let (Some(c), Some(e)) = (coverage.as_object_mut(), rep.extra.as_object()) {
        for (k, v) in e {
            c.insert(k.clone(), v.clone());
        }
    }
    let ev = json!({
        "property_id": rep.prop,
        "tier": if args.thorough() { "thorough" } else { "quick" },
        "seed": args.seed,
        "level": rep.level,
        "coverage": coverage,
        "assumptions": rep.assumptions,
        "wall_s": started.elapsed().as_secs_f64(),
        "violations": acc.failures.len(),
        "failures": failure_records,
    });
    let _ = std::fs::write(&out, serde_json::to_string_pretty(&ev).unwrap());
    println!(
        "{}: evaluations={} distinct_nontrivial={} failures={} wall={:.1}s",
        rep.prop,
        acc.evals,
        acc.nontrivial.len(),
        acc.failures.len(),
        started.elapsed().as_secs_f64()
    );
    if std::env::var("VERIF_DRIVER").is_err() {
        for l in &violation_lines {
            println!("{l}");
        }
    }
    std::process::exit(if violation_lines.is_empty() { 0 } else { 1 });
}

/// Replay mode: load `{"case": ...}` (or a bare case) from a file.
pub fn load_replay<T: serde::de::DeserializeOwned>(path: &std::path::Path) -> T {
    let text = std::fs::read_to_string(path).unwrap_or_else(|e| {
        eprintln!("cannot read replay file {}: {e}", path.display());
        std::process::exit(2)
    });
    let v: Value = serde_json::from_str(&text).unwrap_or_else(|e| {
        eprintln!("replay file is not JSON: {e}");
        std::process::exit(2)
    });
    let case = v.get("case").cloned().unwrap_or(v);
    serde_json::from_value(case).unwrap_or_else(|e| {
        eprintln!("replay file does not hold a case of this property: {e}");
        std::process::exit(2)
    })
}

/// Finish a replay run.
pub fn finish_replay(prop: &str, path: &std::path::Path, r: Result<(), String>) -> ! {
    match r {
        Ok(()) => {
            println!("{prop}: replay {} passed", path.display());
            std::process::exit(0)
        }
        Err(m) => {
            eprintln!("FAIL property={prop} msg={m}");
            println!("VIOLATION property={prop} replay={}", path.display());
            std::process::exit(1)
        }
    }
}

/// Convert a list of violations to the executor's result.
pub fn verdict(mut v: Vec<String>) -> Result<(), String> {
    if v.is_empty() {
        Ok(())
    } else {
        v.truncate(4);
        Err(v.join(" | "))
    }
}

/// registry-aware end of case
pub fn end_case(allow_leaks: bool) -> Result<(), String> {
    verdict(registry::finish(allow_leaks))
}


/// `--replay-many FILE`: run a JSON list of cases sequentially on the main thread (used for Miri / sanitizer replays).
/// Prints one line per failing case and exits 1 if any failed.
pub fn maybe_replay_many<C: serde::de::DeserializeOwned + Serialize>(prop: &str, args: &Args, exec: impl Fn(&C, &mut Acc) -> Result<(), String>) {
    let Some(path) = &args.replay_many else { return };
    let text = std::fs::read_to_string(path).unwrap_or_else(|e| {
        eprintln!("cannot read {}: {e}", path.display());
        std::process::exit(2)
    });
    let cases: Vec<C> = serde_json::from_str(&text).unwrap_or_else(|e| {
        eprintln!("not a list of cases: {e}");
        std::process::exit(2)
    });
    let mut acc = Acc::new();
    let mut bad = 0usize;
    let verbose = std::env::var("VERIF_VERBOSE").is_ok();
    for (i, c) in cases.iter().enumerate() {
        if verbose {
            println!("CASE {i}");
        }
        let r = catch(|| exec(c, &mut acc)).unwrap_or_else(|p| Err(format!("panic: {}", p.msg)));
        if let Err(m) = r {
            bad += 1;
            println!("REPLAY-FAIL property={prop} index={i} case={} msg={m}", serde_json::to_string(c).unwrap_or_default());
        }
    }
    println!("REPLAY-MANY property={prop} cases={} failed={bad}", cases.len());
    std::process::exit(if bad == 0 { 0 } else { 1 });
}

/// glue for the libFuzzer targets: a panic hook that tolerates the harness' own injected panics, and a failure sink
pub mod fuzzglue {
    use super::*;
    static INIT: std::sync::Once = std::sync::Once::new();

    /// libfuzzer-sys installs a hook that aborts on *any* panic; the executors inject panics on purpose.
    pub fn init() {
        INIT.call_once(|| {
            let prev = panic::take_hook();
            panic::set_hook(Box::new(move |info| {
                if info.payload().is::<Injected>() || QUIET.with(|q| q.get()) > 0 {
                    return;
                }
                prev(info);
            }));
        });
    }

    /// journal mode (crash triage): write the decoded case before executing it
    pub fn journal<C: Serialize>(case: &C) {
        if let Ok(p) = std::env::var("FUZZ_JOURNAL") {
            let _ = std::fs::write(p, serde_json::to_vec(case).unwrap_or_default());
        }
    }

    /// a semantic failure found by the in-target oracle: persist the case, then die so that libFuzzer keeps the input
    pub fn fail<C: Serialize>(prop: &str, case: &C, msg: &str) -> ! {
        let dir = verif_root().join("replays").join(prop);
        let _ = std::fs::create_dir_all(&dir);
        let body = json!({"property": prop, "case": case, "message": format!("found by libFuzzer: {msg}")});
        let name = format!("fuzz_{:016x}.json", hash_of(&serde_json::to_string(case).unwrap_or_default()));
        let _ = std::fs::write(dir.join(name), serde_json::to_string_pretty(&body).unwrap());
        eprintln!("FUZZ-FAIL property={prop} msg={msg}");
        std::process::abort();
    }
}
