//! Length lattices: generators produce numbers, the crate wants types.

pub const SMALL: &[usize] = &[0, 1, 2, 3, 4, 5, 6, 7, 8, 9, 10, 11, 12];
pub const BOUNDARY: &[usize] =
    &[15, 16, 17, 31, 32, 33, 63, 64, 65, 100, 127, 128, 129, 255, 256, 257, 511, 512, 1000, 1023, 1024];
/// SMALL ∪ BOUNDARY
pub const LAT: &[usize] = &[
    0, 1, 2, 3, 4, 5, 6, 7, 8, 9, 10, 11, 12, 15, 16, 17, 31, 32, 33, 63, 64, 65, 100, 127, 128, 129, 255, 256, 257, 511,
    512, 1000, 1023, 1024, 2048, 4096,
];
/// SMALL ∪ a few boundary values: for checks whose per-length code is large
pub const MID: &[usize] = &[0, 1, 2, 3, 4, 5, 6, 7, 8, 9, 10, 11, 12, 16, 31, 32, 33, 64, 100, 255, 256, 1000, 1024, 2048, 4096];

/// `len_match!(n, N, body, [0: U0, 1: U1, ...])` binds the type alias `N` and evaluates `body`.
#[macro_export]
macro_rules! len_match {
    ($n:expr, $N:ident, $body:expr, [$($num:literal : $ty:ident),* $(,)?]) => {
        match $n {
            $( $num => { #[allow(dead_code)] type $N = $crate::lens::names::$ty; $body } )*
            other => panic!("length {} is not in this lattice", other),
        }
    };
}

#[macro_export]
macro_rules! with_small {
    ($n:expr, $N:ident, $body:expr) => {
        $crate::len_match!($n, $N, $body, [0: U0, 1: U1, 2: U2, 3: U3, 4: U4, 5: U5, 6: U6, 7: U7, 8: U8, 9: U9, 10: U10, 11: U11, 12: U12])
    };
}

#[macro_export]
macro_rules! with_exh {
    ($n:expr, $N:ident, $body:expr) => {
        $crate::len_match!($n, $N, $body, [0: U0, 1: U1, 2: U2, 3: U3, 4: U4, 5: U5, 6: U6, 7: U7, 8: U8])
    };
}

#[macro_export]
macro_rules! with_lat {
    ($n:expr, $N:ident, $body:expr) => {
        $crate::len_match!($n, $N, $body, [0: U0, 1: U1, 2: U2, 3: U3, 4: U4, 5: U5, 6: U6, 7: U7, 8: U8, 9: U9, 10: U10, 11: U11, 12: U12,
            15: U15, 16: U16, 17: U17, 31: U31, 32: U32, 33: U33, 63: U63, 64: U64, 65: U65, 100: U100, 127: U127, 128: U128, 129: U129,
            255: U255, 256: U256, 257: U257, 511: U511, 512: U512, 1000: U1000, 1023: U1023, 1024: U1024, 2048: U2048, 4096: U4096])
    };
}

#[macro_export]
macro_rules! with_mid {
    ($n:expr, $N:ident, $body:expr) => {
        $crate::len_match!($n, $N, $body, [0: U0, 1: U1, 2: U2, 3: U3, 4: U4, 5: U5, 6: U6, 7: U7, 8: U8, 9: U9, 10: U10, 11: U11, 12: U12,
            16: U16, 31: U31, 32: U32, 33: U33, 64: U64, 100: U100, 255: U255, 256: U256, 1000: U1000, 1024: U1024, 2048: U2048, 4096: U4096])
    };
}

/// typenum's named constants plus a few lengths that have no name of their own
pub mod names {
    pub use generic_array::typenum::*;
    pub type U4097x = generic_array::typenum::operator_aliases::Add1<U4096>;
    pub type U3000x = generic_array::typenum::operator_aliases::Prod<U1000, U3>;
    pub type U3500x = generic_array::typenum::operator_aliases::Prod<U500, U7>;
    pub type U5000x = generic_array::typenum::operator_aliases::Prod<U1000, U5>;
    pub type U6000x = generic_array::typenum::operator_aliases::Prod<U1000, U6>;
    pub type U12000x = generic_array::typenum::operator_aliases::Prod<U1000, U12>;
}
