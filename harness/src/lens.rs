//! Length lattices: generators produce numbers, the crate wants types.

pub const SMALL: &[usize] = &[0, 1, 2, 3, 4, 5, 6, 7, 8, 9, 10, 11, 12];
pub const BOUNDARY: &[usize] =
    &[15, 16, 17, 31, 32, 33, 63, 64, 65, 100, 127, 128, 129, 255, 256, 257, 511, 512, 1000, 1023, 1024];
/// SMALL ∪ BOUNDARY
pub const LAT: &[usize] = &[
    0, 1, 2, 3, 4, 5, 6, 7, 8, 9, 10, 11, 12, 15, 16, 17, 31, 32, 33, 63, 64, 65, 100, 127, 128, 129, 255, 256, 257, 511,
    512, 1000, 1023, 1024, 2048, 4096,
];
/// SMALL ∪ a few boundary values: for checks whose per-length code is large
pub const MID: &[usize] = &[0, 1, 2, 3, 4, 5, 6, 7, 8, 9, 10, 11, 12, 16, 31, 32, 33, 64, 100, 255, 256, 1000, 1024, 2048, 4096];

/// `len_match!(n, N, body, [0: U0, 1: U1, ...])` binds the type alias `N` and evaluates `body`.
#[macro_export]
macro_rules! len_match {
    ($n:expr, $N:ident, $body:expr, [$($num:literal : $ty:ident),* $(,)?]) => {
        match $n {
            $( $num => { #[allow(dead_code)] type $N = $crate::lens::names::$ty; $body } )*
            other => panic!("length {} is not in this lattice", other),
        }
    };
}

#[macro_export]
macro_rules! with_small {
    ($n:expr, $N:ident, $body:expr) => {
        $crate::len_match!($n, $N, $body, [0: U0, 1: U1, 2: U2, 3: U3, 4: U4, 5: U5, 6: U6, 7: U7, 8: U8, 9: U9, 10: U10, 11: U11, 12: U12])
    };
}

#[macro_export]
macro_rules! with_exh {
    ($n:expr, $N:ident, $body:expr) => {
        $crate::len_match!($n, $N, $body, [0: U0, 1: U1, 2: U2, 3: U3, 4: U4, 5: U5, 6: U6, 7: U7, 8: U8])
    };
}

#[macro_export]
macro_rules! with_lat {
    ($n:expr, $N:ident, $body:expr) => {
        $crate::len_match!($n, $N, $body, [0: U0, 1: U1, 2: U2, 3: U3, 4: U4, 5: U5, 6: U6, 7: U7, 8: U8, 9: U9, 10: U10, 11: U11, 12: U12,
            15: U15, 16: U16, 17: U17, 31: U31, 32: U32, 33: U33, 63: U63, 64: U64, 65: U65, 100: U100, 127: U127, 128: U128, 129: U129,
            255: U255, 256: U256, 257: U257, 511: U511, 512: U512, 1000: U1000, 1023: U1023, 1024: U1024, 2048: U2048, 4096: U4096])
    };
}

#[macro_export]
macro_rules! with_mid {
    ($n:expr, $N:ident, $body:expr) => {
        $crate::len_match!($n, $N, $body, [0: U0, 1: U1, 2: U2, 3: U3, 4: U4, 5: U5, 6: U6, 7: U7, 8: U8, 9: U9, 10: U10, 11: U11, 12: U12,
            16: U16, 31: U31, 32: U32, 33: U33, 64: U64, 100: U100, 255: U255, 256: U256, 1000: U1000, 1024: U1024, 2048: U2048, 4096: U4096])
    };
}

/// typenum's named constants plus a few lengths that have no name of their own
pub mod names {
    pub use generic_array::typenum::*;
    pub type U4097x = generic_array::typenum::operator_aliases::Add1<U4096>;
    pub type U3000x = generic_array::typenum::operator_aliases::Prod<U1000, U3>;
    pub type U3500x = generic_array::typenum::operator_aliases::Prod<U500, U7>;
    pub type U5000x = generic_array::typenum::operator_aliases::Prod<U1000, U5>;
    pub type U6000x = generic_array::typenum::operator_aliases::Prod<U1000, U6>;
    pub type U12000x = generic_array::typenum::operator_aliases::Prod<U1000, U12>;
}

/// Hand-spelled lengths with leading zero digits. Every `UInt<N: ArrayLength, B>` is an `ArrayLength`, so these are legal
/// lengths (with their own storage shapes) although no typenum alias or type-level arithmetic ever produces them.
pub mod denorm {
    use generic_array::typenum::{UInt, UTerm, B0, B1};
    pub type Z0a = UInt<UTerm, B0>; // "0" = 0
    pub type Z0b = UInt<Z0a, B0>; // "00" = 0
    pub type Z1a = UInt<Z0a, B1>; // "01" = 1
    pub type Z2a = UInt<Z1a, B0>; // "010" = 2
    pub type Z3b = UInt<UInt<Z0b, B1>, B1>; // "0011" = 3
    pub type Z5a = UInt<Z2a, B1>; // "0101" = 5
    pub type Z8a = UInt<UInt<Z2a, B0>, B0>; // "01000" = 8
}

/// `denorm_match!(k, N, body)`: k in 1..=7 selects one of the spellings above
#[macro_export]
macro_rules! denorm_match {
    ($k:expr, $N:ident, $body:expr) => {
        match $k {
            1 => { #[allow(dead_code)] type $N = $crate::lens::denorm::Z0a; $body }
            2 => { #[allow(dead_code)] type $N = $crate::lens::denorm::Z0b; $body }
            3 => { #[allow(dead_code)] type $N = $crate::lens::denorm::Z1a; $body }
            4 => { #[allow(dead_code)] type $N = $crate::lens::denorm::Z2a; $body }
            5 => { #[allow(dead_code)] type $N = $crate::lens::denorm::Z3b; $body }
            6 => { #[allow(dead_code)] type $N = $crate::lens::denorm::Z5a; $body }
            7 => { #[allow(dead_code)] type $N = $crate::lens::denorm::Z8a; $body }
            other => panic!("no leading-zero spelling number {}", other),
        }
    };
}
/// (selector, value) of the spellings
pub const DENORM: &[(u8, usize)] = &[(1, 0), (2, 0), (3, 1), (4, 2), (5, 3), (6, 5), (7, 8)];
