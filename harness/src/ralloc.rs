//! Recording global allocator (C15, C16). A binary opts in with
//! `#[global_allocator] static A: harness::ralloc::RecAlloc = harness::ralloc::RecAlloc;`
//! Recording is per thread and only while armed.

use std::alloc::{GlobalAlloc, Layout, System};
use std::cell::{Cell, RefCell};

#[derive(Clone, Copy, Debug, PartialEq, Eq)]
pub enum Ev {
    Alloc { ptr: usize, size: usize, align: usize, zeroed: bool },
    Dealloc { ptr: usize, size: usize, align: usize },
    Realloc { ptr: usize, size: usize, align: usize, new_size: usize, new_ptr: usize },
    /// an allocation request answered with null because of an injected failure
    Failed { size: usize, align: usize },
}

thread_local! {
    static ARMED: Cell<bool> = const { Cell::new(false) };
    static COUNT: Cell<u64> = const { Cell::new(0) };
    static FAIL_AT: Cell<u64> = const { Cell::new(u64::MAX) };
    static LOG: RefCell<Vec<Ev>> = const { RefCell::new(Vec::new()) };
}

pub struct RecAlloc;

fn record(e: Ev) {
    // never record (or fail) allocations made by the recorder itself
    ARMED.with(|a| a.set(false));
    LOG.with(|l| {
        if let Ok(mut l) = l.try_borrow_mut() {
            l.push(e)
        }
    });
    ARMED.with(|a| a.set(true));
}

fn should_fail() -> bool {
    let c = COUNT.with(|c| {
        let v = c.get();
        c.set(v + 1);
        v
    });
    FAIL_AT.with(|f| f.get()) == c
}

unsafe impl GlobalAlloc for RecAlloc {
    unsafe fn alloc(&self, l: Layout) -> *mut u8 {
        if ARMED.with(|a| a.get()) {
            if should_fail() {
                record(Ev::Failed { size: l.size(), align: l.align() });
                return std::ptr::null_mut();
            }
            let p = System.alloc(l);
            record(Ev::Alloc { ptr: p as usize, size: l.size(), align: l.align(), zeroed: false });
            p
        } else {
            System.alloc(l)
        }
    }
    unsafe fn alloc_zeroed(&self, l: Layout) -> *mut u8 {
        if ARMED.with(|a| a.get()) {
            if should_fail() {
                record(Ev::Failed { size: l.size(), align: l.align() });
                return std::ptr::null_mut();
            }
            let p = System.alloc_zeroed(l);
            record(Ev::Alloc { ptr: p as usize, size: l.size(), align: l.align(), zeroed: true });
            p
        } else {
            System.alloc_zeroed(l)
        }
    }
    unsafe fn dealloc(&self, p: *mut u8, l: Layout) {
        if ARMED.with(|a| a.get()) {
            record(Ev::Dealloc { ptr: p as usize, size: l.size(), align: l.align() });
        }
        System.dealloc(p, l)
    }
    unsafe fn realloc(&self, p: *mut u8, l: Layout, new_size: usize) -> *mut u8 {
        if ARMED.with(|a| a.get()) {
            if should_fail() {
                record(Ev::Failed { size: new_size, align: l.align() });
                return std::ptr::null_mut();
            }
            let q = System.realloc(p, l, new_size);
            record(Ev::Realloc { ptr: p as usize, size: l.size(), align: l.align(), new_size, new_ptr: q as usize });
            q
        } else {
            System.realloc(p, l, new_size)
        }
    }
}

/// Start recording on this thread (clears the log). `fail_at` = index of the armed allocation that fails.
pub fn arm(fail_at: Option<u64>) {
    LOG.with(|l| {
        let mut l = l.borrow_mut();
        l.clear();
        l.reserve(4096);
    });
    COUNT.with(|c| c.set(0));
    FAIL_AT.with(|f| f.set(fail_at.unwrap_or(u64::MAX)));
    ARMED.with(|a| a.set(true));
}

/// Stop recording and return the events.
pub fn disarm() -> Vec<Ev> {
    ARMED.with(|a| a.set(false));
    FAIL_AT.with(|f| f.set(u64::MAX));
    LOG.with(|l| std::mem::take(&mut *l.borrow_mut()))
}

/// pause/resume without clearing (for harness bookkeeping inside a recorded window)
pub fn pause() -> bool {
    ARMED.with(|a| a.replace(false))
}
pub fn resume(was: bool) {
    ARMED.with(|a| a.set(was));
}

pub fn armed_allocs() -> u64 {
    COUNT.with(|c| c.get())
}

#[derive(Debug, Default)]
pub struct Analysis {
    pub allocs: usize,
    pub zero_size_requests: Vec<Ev>,
    /// dealloc / realloc whose layout differs from the one the block was requested with
    pub layout_mismatches: Vec<(Ev, Ev)>,
    /// blocks allocated inside the window and still live at its end
    pub live: Vec<Ev>,
    /// blocks released twice inside the window
    pub double_free: Vec<Ev>,
}

pub fn analyze(events: &[Ev]) -> Analysis {
    use std::collections::HashMap;
    let mut a = Analysis::default();
    let mut live: HashMap<usize, Ev> = HashMap::new();
    let mut freed_in_window: HashMap<usize, Ev> = HashMap::new();
    for e in events {
        match *e {
            Ev::Alloc { ptr, size, .. } => {
                a.allocs += 1;
                if size == 0 {
                    a.zero_size_requests.push(*e);
                }
                if ptr != 0 {
                    live.insert(ptr, *e);
                    freed_in_window.remove(&ptr);
                }
            }
            Ev::Failed { size, .. } => {
                if size == 0 {
                    a.zero_size_requests.push(*e);
                }
            }
            Ev::Dealloc { ptr, size, align } => match live.remove(&ptr) {
                Some(orig) => {
                    let (os, oa) = match orig {
                        Ev::Alloc { size, align, .. } => (size, align),
                        Ev::Realloc { new_size, align, .. } => (new_size, align),
                        _ => (size, align),
                    };
                    if os != size || oa != align {
                        a.layout_mismatches.push((orig, *e));
                    }
                    freed_in_window.insert(ptr, *e);
                }
                None => {
                    if freed_in_window.contains_key(&ptr) {
                        a.double_free.push(*e);
                    }
                }
            },
            Ev::Realloc { ptr, size, align, new_size, new_ptr } => {
                a.allocs += 1;
                if new_size == 0 {
                    a.zero_size_requests.push(*e);
                }
                if let Some(orig) = live.remove(&ptr) {
                    let (os, oa) = match orig {
                        Ev::Alloc { size, align, .. } => (size, align),
                        Ev::Realloc { new_size, align, .. } => (new_size, align),
                        _ => (size, align),
                    };
                    if os != size || oa != align {
                        a.layout_mismatches.push((orig, *e));
                    }
                    if new_ptr != 0 {
                        live.insert(new_ptr, *e);
                    } else {
                        live.insert(ptr, orig);
                    }
                } else if new_ptr != 0 {
                    // block from before the window: from now on tracked with its new layout
                    live.insert(new_ptr, *e);
                }
            }
        }
    }
    a.live = live.into_values().collect();
    a
}
