//! C03 - every element is dropped exactly once across any history of ownership moves.
//! Generated histories over a pool of live values; oracle = drop registry + value model.

#[path = "tables.rs"]
#[allow(dead_code)]
mod tables;

use generic_array::functional::FunctionalSequence;
use generic_array::{ArrayLength, GenericArray};
use harness::engine::{self, Acc, Args, Report};
use harness::registry::{self, pk, Elem, Peek, Tracked, TrackedZst};
use proptest::prelude::*;
use serde::{Deserialize, Serialize};
use tables::*;

pub const PROP: &str = "C03";

#[derive(Clone, Copy, Debug, Serialize, Deserialize, PartialEq, Eq, Hash)]
pub enum Kind {
    Tracked,
    Zst,
    U32,
}

#[derive(Clone, Copy, Debug, Serialize, Deserialize, PartialEq, Eq, Hash)]
pub enum Op {
    /// constructor `how` (0..=11) of an array of length n
    New(u8, u8),
    IntoIter(u16),
    Map(u16, u8),
    Zip(u16, u16, u8),
    Fold(u16, u8),
    Append(u16),
    Prepend(u16),
    PopBack(u16),
    PopFront(u16),
    Split(u16, u8),
    Concat(u16, u16),
    Remove(u16, u8),
    SwapRemove(u16, u8),
    Regroup(u16, u8, u8),
    NativeRt(u16, u8),
    TupleRt(u16),
    ToVec(u16),
    ToBoxSlice(u16),
    ToBox(u16),
    CloneArr(u16),
    Next(u16),
    NextBack(u16),
    Nth(u16, u8),
    NthBack(u16, u8),
    /// `dst.clone_from(&src)` between two arrays of the same length / two iterators over arrays of the same length
    CloneFromArr(u16, u16),
    CloneFromIter(u16, u16),
    CloneIter(u16),
    FoldRest(u16),
    RFoldRest(u16),
    Count(u16),
    Last(u16),
    CollectRest(u16, bool),
    BoxIntoIter(u16),
    BoxMap(u16),
    BoxZip(u16, u16),
    BoxFold(u16),
    BoxIntoSlice(u16),
    BoxIntoVec(u16),
    Unbox(u16),
    VecToArr(u16, i8),
    VecToBox(u16, i8),
    SliceToBox(u16, i8),
    SliceToArr(u16, i8),
    Drop(u16),
    /// zip a pool array with a freshly generated array of plain u32 (no drop glue) on the left or the right; form = lhs*3+rhs
    ZipPlain(u16, u8, bool),
    /// a collect that must fail: the source yields N + delta items (delta != 0) behind a hint that does not rule N out
    FailedCollect(u8, i8, bool),
}

#[derive(Clone, Debug, Serialize, Deserialize, PartialEq, Eq, Hash)]
pub struct Case {
    pub kind: Kind,
    pub ops: Vec<Op>,
}

enum Entry<T> {
    Arr(DynArr<T>),
    Iter(DynIter<T>),
    Boxed(DynBox<T>),
    Vec(Vec<T>),
    Slice(Box<[T]>),
    Loose(T),
}

#[derive(Clone, Copy, PartialEq, Eq)]
enum Ty {
    Arr,
    Iter,
    Boxed,
    Vec,
    Slice,
    Loose,
}

struct Slot<T> {
    e: Entry<T>,
    m: Vec<u32>,
}

impl<T> Slot<T> {
    fn ty(&self) -> Ty {
        match self.e {
            Entry::Arr(_) => Ty::Arr,
            Entry::Iter(_) => Ty::Iter,
            Entry::Boxed(_) => Ty::Boxed,
            Entry::Vec(_) => Ty::Vec,
            Entry::Slice(_) => Ty::Slice,
            Entry::Loose(_) => Ty::Loose,
        }
    }
}

#[derive(Default)]
struct Stats {
    chained: bool,
    lib_released: bool,
    abandoned_iter: bool,
    both_ends: bool,
    regroup: bool,
    heap: bool,
    zero_len: bool,
    executed: usize,
}

struct World<T: Elem> {
    pool: Vec<Slot<T>>,
    next_val: u32,
    stats: Stats,
}

/// put a by-reference operand back: a placeholder enum value is overwritten with the real array
fn keep<T, N: ArrayLength>(x: GenericArray<T, N>) -> DynArr<T>
where
    DynArr<T>: From<GenericArray<T, N>>,
{
    DynArr::from(x)
}

fn mix1(v: u32) -> u32 {
    v.wrapping_mul(31).wrapping_add(7) & 0x3fff_ffff
}
fn mix2(a: u32, b: u32) -> u32 {
    a.wrapping_mul(31).wrapping_add(b.wrapping_mul(17)).wrapping_add(3) & 0x3fff_ffff
}

struct Regrouper<'a> {
    action: u8,
    model: &'a mut Vec<u32>,
    n: usize,
    err: Option<String>,
}

impl<'a, T: Elem + Clone> NestedVisitor<T> for Regrouper<'a> {
    fn visit<N: ArrayLength, M: ArrayLength>(&mut self, nested: GenericArray<GenericArray<T, N>, M>) -> GenericArray<GenericArray<T, N>, M> {
        // row-major check
        for (i, inner) in nested.iter().enumerate() {
            for (j, e) in inner.iter().enumerate() {
                let want = T::norm(self.model[i * self.n + j]);
                if e.get() != want && self.err.is_none() {
                    self.err = Some(format!("unflatten: nested[{i}][{j}] = {} expected {want}", e.get()));
                }
            }
        }
        match self.action % 4 {
            0 => nested,
            1 => {
                // map every inner array element-wise (moves every element through two maps)
                for v in self.model.iter_mut() {
                    *v = mix1(T::norm(*v));
                }
                nested.map(|inner| inner.map(|x| T::mk(mix1(x.get()))))
            }
            2 => {
                // take the outer array apart by value and rebuild it with the rows reversed
                let rows: Vec<GenericArray<T, N>> = nested.into_iter().collect();
                let m = rows.len();
                let old = self.model.clone();
                for i in 0..m {
                    for j in 0..self.n {
                        self.model[i * self.n + j] = old[(m - 1 - i) * self.n + j];
                    }
                }
                rows.into_iter().rev().collect()
            }
            _ => {
                // clone the nested array, drop the original
                let c = nested.clone();
                drop(nested);
                c
            }
        }
    }
}

impl<T: Elem + Clone + Default + Peek> World<T> {
    fn fresh(&mut self) -> u32 {
        self.next_val += 1;
        self.next_val
    }

    fn eligible(&self, t: Ty) -> Vec<usize> {
        self.pool.iter().enumerate().filter(|(_, s)| s.ty() == t).map(|(i, _)| i).collect()
    }

    fn pick(&self, sel: u16, t: Ty) -> Option<usize> {
        let e = self.eligible(t);
        if e.is_empty() {
            None
        } else {
            Some(e[(sel as usize * e.len()) >> 16])
        }
    }

    fn pick_where(&self, sel: u16, f: impl Fn(&Slot<T>) -> bool) -> Option<usize> {
        let e: Vec<usize> = self.pool.iter().enumerate().filter(|(_, s)| f(s)).map(|(i, _)| i).collect();
        if e.is_empty() {
            None
        } else {
            Some(e[(sel as usize * e.len()) >> 16])
        }
    }

    fn push(&mut self, e: Entry<T>, m: Vec<u32>) {
        self.pool.push(Slot { e, m });
    }

    fn new_arr(&mut self, how: u8, n: usize) {
        let n = n.min(MAXN);
        if n == 0 {
            self.stats.zero_len = true;
        }
        let base = self.next_val + 1;
        self.next_val += n as u32;
        let vals: Vec<u32> = (0..n as u32).map(|i| base + i).collect();
        let mk = |i: usize| T::mk(base + i as u32);
        let src = || -> Vec<T> { (0..n).map(mk).collect() };
        let (e, m) = match how % 12 {
            0 => (Entry::Arr(DynArr::generate(n, mk)), vals),
            1 => (Entry::Arr(DynArr::from_iter(n, src())), vals),
            2 => (Entry::Arr(DynArr::try_from_iter(n, src().into_iter().map(|x| x)).ok().expect("exact length")), vals),
            3 => (Entry::Arr(DynArr::from_native(n, 0, mk)), vals),
            4 => (Entry::Arr(DynArr::from_native(n, 1, mk)), vals),
            5 => (Entry::Arr(DynArr::from_native(n, 2, mk)), vals),
            6 => (Entry::Arr(DynArr::from_tuple(n, mk)), vals),
            7 => (Entry::Arr(DynArr::default(n)), vec![0; n]),
            8 => (Entry::Arr(DynArr::try_from_vec(n, src()).ok().expect("exact length")), vals),
            9 => {
                self.stats.heap = true;
                (Entry::Boxed(DynBox::generate(n, mk)), vals)
            }
            10 => {
                self.stats.heap = true;
                (Entry::Boxed(DynBox::from_iter(n, src())), vals)
            }
            _ => {
                self.stats.heap = true;
                (Entry::Boxed(DynBox::default_boxed(n)), vec![0; n])
            }
        };
        self.push(e, m);
    }

    fn take(&mut self, i: usize) -> Slot<T> {
        self.stats.chained = true;
        self.pool.remove(i)
    }

    fn check_all(&self, what: &str) -> Result<(), String> {
        for (i, s) in self.pool.iter().enumerate() {
            let got: Vec<u32> = match &s.e {
                Entry::Arr(a) => a.as_slice().iter().map(|x| x.get()).collect(),
                Entry::Iter(it) => it.as_slice().iter().map(|x| x.get()).collect(),
                Entry::Boxed(b) => b.as_slice().iter().map(|x| x.get()).collect(),
                Entry::Vec(v) => v.iter().map(|x| x.get()).collect(),
                Entry::Slice(v) => v.iter().map(|x| x.get()).collect(),
                Entry::Loose(x) => vec![x.get()],
            };
            let want: Vec<u32> = s.m.iter().map(|v| T::norm(*v)).collect();
            if got != want {
                return Err(format!("after {what}: pool entry {i} holds {:?}, the value model says {:?}", got, want));
            }
        }
        let v = registry::violations();
        if !v.is_empty() {
            return Err(format!("after {what}: {}", v.join(" | ")));
        }
        Ok(())
    }

    fn apply(&mut self, op: Op) -> Result<(), String> {
        macro_rules! need {
            ($e:expr) => {
                match $e {
                    Some(i) => i,
                    None => {
                        let (h, n) = match op {
                            Op::New(h, n) => (h, n),
                            _ => ((self.next_val % 12) as u8, (self.next_val % 7) as u8),
                        };
                        self.new_arr(h, n as usize);
                        return Ok(());
                    }
                }
            };
        }
        match op {
            Op::New(h, n) => self.new_arr(h, n as usize),
            Op::IntoIter(s) => {
                let i = need!(self.pick(s, Ty::Arr));
                let Slot { e, m } = self.take(i);
                if let Entry::Arr(a) = e {
                    self.push(Entry::Iter(a.into_iter()), m);
                }
            }
            Op::Map(s, form) => {
                let i = need!(self.pick(s, Ty::Arr));
                match form % 3 {
                    0 => {
                        let Slot { e, m } = self.take(i);
                        if let Entry::Arr(a) = e {
                            let r = arr_match!(a, a => DynArr::from_iter(a.len(), a.map(|x| { let v = mix1(x.get()); drop(x); T::mk(v) })));
                            self.stats.lib_released = true;
                            self.push(Entry::Arr(r), m.iter().map(|v| mix1(T::norm(*v))).collect());
                        }
                    }
                    1 => {
                        let m: Vec<u32> = self.pool[i].m.iter().map(|v| mix1(T::norm(*v))).collect();
                        let r = if let Entry::Arr(a) = &self.pool[i].e {
                            arr_match!(a, a => DynArr::from_iter(a.len(), a.map(|x: &T| T::mk(mix1(x.get())))))
                        } else {
                            unreachable!()
                        };
                        self.push(Entry::Arr(r), m);
                    }
                    _ => {
                        let base = self.next_val;
                        let n = self.pool[i].m.len() as u32;
                        self.next_val += n;
                        let old: Vec<u32> = self.pool[i].m.clone();
                        let mut k = 0u32;
                        let r = if let Entry::Arr(a) = &mut self.pool[i].e {
                            arr_match!(a, a => DynArr::from_iter(a.len(), a.map(|x: &mut T| {
                                k += 1;
                                let v = mix1(x.get());
                                *x = T::mk(base + k); // replaces (drops) the element in place
                                T::mk(v)
                            })))
                        } else {
                            unreachable!()
                        };
                        self.pool[i].m = (1..=n).map(|k| base + k).collect();
                        self.push(Entry::Arr(r), old.iter().map(|v| mix1(T::norm(*v))).collect());
                    }
                }
            }
            Op::Zip(s1, s2, form) => {
                let i = need!(self.pick(s1, Ty::Arr));
                let n = self.pool[i].m.len();
                let j = match self.pick_where(s2, |sl| sl.ty() == Ty::Arr && sl.m.len() == n) {
                    Some(j) if j != i => j,
                    _ => {
                        self.new_arr(0, n);
                        self.pool.len() - 1
                    }
                };
                let (lf, rf) = (form % 3, (form / 3) % 3);
                let m: Vec<u32> = self.pool[i].m.iter().zip(self.pool[j].m.iter()).map(|(a, b)| mix2(T::norm(*a), T::norm(*b))).collect();
                // take both out (higher index first), put back the ones used by reference
                let (hi, lo) = if i > j { (i, j) } else { (j, i) };
                let shi = self.pool.remove(hi);
                let slo = self.pool.remove(lo);
                let (sl, sr) = if i > j { (shi, slo) } else { (slo, shi) };
                let (Slot { e: el, m: ml }, Slot { e: er, m: mr }) = (sl, sr);
                let (Entry::Arr(mut a), Entry::Arr(mut b)) = (el, er) else { unreachable!() };
                macro_rules! z {
                    ($l:expr, $r:expr, $n:expr) => {
                        DynArr::from_iter($n, $l.zip($r, |l, r| {
                            let v = mix2(pk(&l), pk(&r));
                            drop((l, r));
                            T::mk(v)
                        }))
                    };
                }
                let r = match (lf, rf) {
                    (0, 0) => arr_pair_same!(a, b, (x, y) => { self.stats.lib_released = true; self.stats.chained = true; z!(x, y, n) }, unreachable!()),
                    (0, 1) => {
                        let r = arr_pair_same!(a, &b, (x, y) => z!(x, y, n), unreachable!());
                        self.push(Entry::Arr(b), mr);
                        r
                    }
                    (0, _) => {
                        let r = arr_pair_same!(a, &mut b, (x, y) => z!(x, y, n), unreachable!());
                        self.push(Entry::Arr(b), mr);
                        r
                    }
                    (1, 0) => {
                        let r = arr_pair_same!(&a, b, (x, y) => z!(x, y, n), unreachable!());
                        self.push(Entry::Arr(a), ml);
                        r
                    }
                    (2, 0) => {
                        let r = arr_pair_same!(&mut a, b, (x, y) => z!(x, y, n), unreachable!());
                        self.push(Entry::Arr(a), ml);
                        r
                    }
                    (1, 1) => {
                        let r = arr_pair_same!(&a, &b, (x, y) => z!(x, y, n), unreachable!());
                        self.push(Entry::Arr(a), ml);
                        self.push(Entry::Arr(b), mr);
                        r
                    }
                    (1, _) => {
                        let r = arr_pair_same!(&a, &mut b, (x, y) => z!(x, y, n), unreachable!());
                        self.push(Entry::Arr(a), ml);
                        self.push(Entry::Arr(b), mr);
                        r
                    }
                    (_, 1) => {
                        let r = arr_pair_same!(&mut a, &b, (x, y) => z!(x, y, n), unreachable!());
                        self.push(Entry::Arr(a), ml);
                        self.push(Entry::Arr(b), mr);
                        r
                    }
                    _ => {
                        let r = arr_pair_same!(&mut a, &mut b, (x, y) => z!(x, y, n), unreachable!());
                        self.push(Entry::Arr(a), ml);
                        self.push(Entry::Arr(b), mr);
                        r
                    }
                };
                self.push(Entry::Arr(r), m);
            }
            Op::Fold(s, form) => {
                let i = need!(self.pick(s, Ty::Arr));
                let want = self.pool[i].m.iter().fold(1u32, |acc, v| mix2(acc, T::norm(*v)));
                let got = match form % 3 {
                    0 => {
                        let Slot { e, .. } = self.take(i);
                        self.stats.lib_released = true;
                        let Entry::Arr(a) = e else { unreachable!() };
                        arr_match!(a, a => a.fold(1u32, |acc, x| { let v = mix2(acc, x.get()); drop(x); v }))
                    }
                    1 => {
                        let Entry::Arr(a) = &self.pool[i].e else { unreachable!() };
                        arr_match!(a, a => a.fold(1u32, |acc, x: &T| mix2(acc, x.get())))
                    }
                    _ => {
                        let Entry::Arr(a) = &mut self.pool[i].e else { unreachable!() };
                        arr_match!(a, a => a.fold(1u32, |acc, x: &mut T| mix2(acc, x.get())))
                    }
                };
                if got != want {
                    return Err(format!("fold result {got} differs from the model's {want}"));
                }
            }
            Op::Append(s) | Op::Prepend(s) => {
                let i = need!(self.pick_where(s, |sl| sl.ty() == Ty::Arr && sl.m.len() < MAXN));
                let Slot { e, mut m } = self.take(i);
                let Entry::Arr(a) = e else { unreachable!() };
                // prefer an element held by the caller
                let (x, v) = match self.pick(s, Ty::Loose) {
                    Some(j) => {
                        let Slot { e, m } = self.take(j);
                        let Entry::Loose(x) = e else { unreachable!() };
                        (x, m[0])
                    }
                    None => {
                        let v = self.fresh();
                        (T::mk(v), v)
                    }
                };
                let r = if matches!(op, Op::Append(_)) {
                    m.push(v);
                    a.append(x)
                } else {
                    m.insert(0, v);
                    a.prepend(x)
                };
                self.push(Entry::Arr(r), m);
            }
            Op::PopBack(s) | Op::PopFront(s) => {
                let i = need!(self.pick_where(s, |sl| sl.ty() == Ty::Arr && !sl.m.is_empty()));
                let Slot { e, mut m } = self.take(i);
                let Entry::Arr(a) = e else { unreachable!() };
                if matches!(op, Op::PopBack(_)) {
                    let (r, x) = a.pop_back();
                    let v = m.pop().unwrap();
                    self.push(Entry::Arr(r), m);
                    self.push(Entry::Loose(x), vec![v]);
                } else {
                    let (x, r) = a.pop_front();
                    let v = m.remove(0);
                    self.push(Entry::Arr(r), m);
                    self.push(Entry::Loose(x), vec![v]);
                }
            }
            Op::Split(s, ks) => {
                let i = need!(self.pick(s, Ty::Arr));
                let Slot { e, m } = self.take(i);
                let Entry::Arr(a) = e else { unreachable!() };
                let k = (ks as usize * (m.len() + 1)) >> 8;
                if k == 0 || k == m.len() {
                    self.stats.zero_len = true;
                }
                let (h, t) = a.split(k);
                self.push(Entry::Arr(h), m[..k].to_vec());
                self.push(Entry::Arr(t), m[k..].to_vec());
            }
            Op::Concat(s1, s2) => {
                let i = need!(self.pick(s1, Ty::Arr));
                let n = self.pool[i].m.len();
                let j = need!(self.pick_where(s2, |sl| sl.ty() == Ty::Arr && sl.m.len() + n <= MAXN));
                if i == j {
                    self.new_arr(0, 0);
                    return Ok(());
                }
                let (hi, lo) = if i > j { (i, j) } else { (j, i) };
                let shi = self.take(hi);
                let slo = self.take(lo);
                let (sa, sb) = if i > j { (shi, slo) } else { (slo, shi) };
                let (Entry::Arr(a), Entry::Arr(b)) = (sa.e, sb.e) else { unreachable!() };
                let mut m = sa.m;
                m.extend(sb.m);
                self.push(Entry::Arr(a.concat(b)), m);
            }
            Op::Remove(s, is) | Op::SwapRemove(s, is) => {
                let i = need!(self.pick_where(s, |sl| sl.ty() == Ty::Arr && !sl.m.is_empty()));
                let Slot { e, mut m } = self.take(i);
                let Entry::Arr(a) = e else { unreachable!() };
                let idx = (is as usize * m.len()) >> 8;
                let (x, r, v) = if matches!(op, Op::Remove(..)) {
                    let (x, r) = a.remove(idx);
                    (x, r, m.remove(idx))
                } else {
                    let (x, r) = a.swap_remove(idx);
                    (x, r, m.swap_remove(idx))
                };
                self.push(Entry::Arr(r), m);
                self.push(Entry::Loose(x), vec![v]);
            }
            Op::Regroup(s, ns, action) => {
                let i = need!(self.pick(s, Ty::Arr));
                let l = self.pool[i].m.len();
                let divisors: Vec<usize> = (1..=MAXN).filter(|n| DynArr::<T>::can_regroup(l, *n)).collect();
                let n = divisors[(ns as usize * divisors.len()) >> 8];
                let Slot { e, mut m } = self.take(i);
                let Entry::Arr(a) = e else { unreachable!() };
                let mut v = Regrouper { action, model: &mut m, n, err: None };
                let r = a.regroup(n, &mut v);
                if let Some(e) = v.err {
                    return Err(e);
                }
                self.stats.regroup = true;
                self.push(Entry::Arr(r), m);
            }
            Op::NativeRt(s, via) => {
                let i = need!(self.pick(s, Ty::Arr));
                let Slot { e, m } = self.take(i);
                let Entry::Arr(a) = e else { unreachable!() };
                let want: Vec<u32> = m.iter().map(|v| T::norm(*v)).collect();
                let mut bad = None;
                let r = a.native_roundtrip(via % 2, &mut |xs: &[T]| {
                    let got: Vec<u32> = xs.iter().map(|x| x.get()).collect();
                    if got != want {
                        bad = Some(format!("native array holds {:?} expected {:?}", got, want));
                    }
                });
                if let Some(b) = bad {
                    return Err(b);
                }
                self.push(Entry::Arr(r), m);
            }
            Op::TupleRt(s) => {
                let i = need!(self.pick(s, Ty::Arr));
                let Slot { e, m } = self.take(i);
                let Entry::Arr(a) = e else { unreachable!() };
                let want: Vec<u32> = m.iter().map(|v| T::norm(*v)).collect();
                let mut bad = None;
                let r = a.tuple_roundtrip(&mut |xs: &[&T]| {
                    let got: Vec<u32> = xs.iter().map(|x| x.get()).collect();
                    if got != want {
                        bad = Some(format!("tuple holds {:?} expected {:?}", got, want));
                    }
                });
                if let Some(b) = bad {
                    return Err(b);
                }
                self.push(Entry::Arr(r), m);
            }
            Op::ToVec(s) | Op::ToBoxSlice(s) | Op::ToBox(s) => {
                let i = need!(self.pick(s, Ty::Arr));
                let Slot { e, m } = self.take(i);
                let Entry::Arr(a) = e else { unreachable!() };
                self.stats.heap = true;
                let e = match op {
                    Op::ToVec(_) => Entry::Vec(arr_match!(a, a => Vec::from(a))),
                    Op::ToBoxSlice(_) => Entry::Slice(arr_match!(a, a => Box::<[T]>::from(a))),
                    _ => Entry::Boxed(a.into_box()),
                };
                self.push(e, m);
            }
            Op::CloneArr(s) => {
                let i = need!(self.pick(s, Ty::Arr));
                let m = self.pool[i].m.clone();
                let Entry::Arr(a) = &self.pool[i].e else { unreachable!() };
                let c = a.clone_arr();
                self.push(Entry::Arr(c), m);
            }
            Op::Next(s) | Op::NextBack(s) => {
                let i = need!(self.pick(s, Ty::Iter));
                let back = matches!(op, Op::NextBack(_));
                let Entry::Iter(it) = &mut self.pool[i].e else { unreachable!() };
                let g = if back { it.next_back() } else { it.next() };
                let m = &mut self.pool[i].m;
                let w = if m.is_empty() { None } else if back { m.pop() } else { Some(m.remove(0)) };
                match (g, w) {
                    (Some(x), Some(v)) => self.push(Entry::Loose(x), vec![v]),
                    (None, None) => {}
                    (g, w) => return Err(format!("iterator yielded {:?}, model {:?}", g.map(|x| x.get()), w)),
                }
                self.stats.both_ends |= back;
            }
            Op::Nth(s, a) | Op::NthBack(s, a) => {
                let i = need!(self.pick(s, Ty::Iter));
                let back = matches!(op, Op::NthBack(..));
                let len = self.pool[i].m.len();
                // the top four argument values stand for usize::MAX - 3 ..= usize::MAX ("skip everything")
                let n = if a >= 252 { usize::MAX - (255 - a) as usize } else { (a as usize * (len + 3)) >> 8 };
                let Entry::Iter(it) = &mut self.pool[i].e else { unreachable!() };
                let g = if back { it.nth_back(n) } else { it.nth(n) };
                let m = &mut self.pool[i].m;
                let skip = n.min(len);
                let w = if back {
                    m.truncate(len - skip);
                    m.pop()
                } else {
                    m.drain(..skip);
                    if m.is_empty() { None } else { Some(m.remove(0)) }
                };
                if skip > 0 {
                    self.stats.lib_released = true;
                }
                self.stats.both_ends |= back;
                match (g, w) {
                    (Some(x), Some(v)) => self.push(Entry::Loose(x), vec![v]),
                    (None, None) => {}
                    (g, w) => return Err(format!("nth: iterator yielded {:?}, model {:?}", g.map(|x| x.get()), w)),
                }
            }
            Op::CloneFromArr(s1, s2) | Op::CloneFromIter(s1, s2) => {
                let arrs = matches!(op, Op::CloneFromArr(..));
                let ty = if arrs { Ty::Arr } else { Ty::Iter };
                let i = need!(self.pick(s1, ty));
                let full = |sl: &Slot<T>| match &sl.e {
                    Entry::Arr(a) => Some(a.len()),
                    Entry::Iter(it) => Some(it.full_len()),
                    _ => None,
                };
                let want = full(&self.pool[i]);
                let j = self.pick_where(s2, |sl| sl.ty() == ty && full(sl) == want);
                let j = match j {
                    Some(j) if j != i => j,
                    _ => {
                        // no second value of that shape yet: make one (a clone), the next clone_from can use it
                        let m = self.pool[i].m.clone();
                        let e = match &self.pool[i].e {
                            Entry::Arr(a) => Entry::Arr(a.clone_arr()),
                            Entry::Iter(it) => Entry::Iter(it.clone_iter()),
                            _ => unreachable!(),
                        };
                        self.push(e, m);
                        return Ok(());
                    }
                };
                let (hi, lo) = if i > j { (i, j) } else { (j, i) };
                let shi = self.take(hi);
                let slo = self.take(lo);
                let (mut dst, src) = if i > j { (shi, slo) } else { (slo, shi) };
                let ok = match (&mut dst.e, &src.e) {
                    (Entry::Arr(a), Entry::Arr(b)) => a.clone_from_arr(b),
                    (Entry::Iter(a), Entry::Iter(b)) => a.clone_from_iter(b),
                    _ => unreachable!(),
                };
                if !ok {
                    return Err("harness: clone_from between values of different shapes".into());
                }
                if !dst.m.is_empty() {
                    self.stats.lib_released = true;
                }
                dst.m = src.m.clone();
                self.pool.push(dst);
                self.pool.push(src);
            }
            Op::CloneIter(s) => {
                let i = need!(self.pick(s, Ty::Iter));
                let m = self.pool[i].m.clone();
                let Entry::Iter(it) = &self.pool[i].e else { unreachable!() };
                let c = it.clone_iter();
                self.push(Entry::Iter(c), m);
            }
            Op::FoldRest(s) | Op::RFoldRest(s) => {
                let i = need!(self.pick(s, Ty::Iter));
                let Slot { e, m } = self.take(i);
                let Entry::Iter(it) = e else { unreachable!() };
                self.stats.lib_released = true;
                let (got, want) = if matches!(op, Op::FoldRest(_)) {
                    (it.fold(1u32, |acc, x| mix2(acc, x.get())), m.iter().fold(1u32, |acc, v| mix2(acc, T::norm(*v))))
                } else {
                    (it.rfold(1u32, |acc, x| mix2(acc, x.get())), m.iter().rev().fold(1u32, |acc, v| mix2(acc, T::norm(*v))))
                };
                if got != want {
                    return Err(format!("iterator fold/rfold gave {got}, model {want}"));
                }
            }
            Op::Count(s) => {
                let i = need!(self.pick(s, Ty::Iter));
                let Slot { e, m } = self.take(i);
                let Entry::Iter(it) = e else { unreachable!() };
                self.stats.lib_released = true;
                self.stats.abandoned_iter |= !m.is_empty();
                let c = it.count();
                if c != m.len() {
                    return Err(format!("count() = {c}, model {}", m.len()));
                }
            }
            Op::Last(s) => {
                let i = need!(self.pick(s, Ty::Iter));
                let Slot { e, mut m } = self.take(i);
                let Entry::Iter(it) = e else { unreachable!() };
                self.stats.lib_released = true;
                let g = it.last();
                match (g, m.pop()) {
                    (Some(x), Some(v)) => self.push(Entry::Loose(x), vec![v]),
                    (None, None) => {}
                    (g, w) => return Err(format!("last() = {:?}, model {:?}", g.map(|x| x.get()), w)),
                }
            }
            Op::CollectRest(s, rev) => {
                let i = need!(self.pick(s, Ty::Iter));
                let Slot { e, mut m } = self.take(i);
                let Entry::Iter(it) = e else { unreachable!() };
                let v = if rev {
                    m.reverse();
                    it.collect_rev()
                } else {
                    it.collect_vec()
                };
                self.push(Entry::Vec(v), m);
            }
            Op::BoxIntoIter(s) => {
                let i = need!(self.pick(s, Ty::Boxed));
                let Slot { e, m } = self.take(i);
                let Entry::Boxed(b) = e else { unreachable!() };
                let mut it = b.into_iter();
                // consume one from each end, leave the rest to vec::IntoIter's drop or collect
                let mut m = m;
                if let Some(x) = it.next() {
                    self.push(Entry::Loose(x), vec![m.remove(0)]);
                }
                let v: Vec<T> = it.collect();
                self.push(Entry::Vec(v), m);
            }
            Op::BoxMap(s) => {
                let i = need!(self.pick(s, Ty::Boxed));
                let Slot { e, m } = self.take(i);
                let Entry::Boxed(b) = e else { unreachable!() };
                self.stats.lib_released = true;
                let n = m.len();
                let r = box_match!(b, b => DynBox::from_iter(n, b.map(|x| { let v = mix1(x.get()); drop(x); T::mk(v) }).into_iter()));
                self.push(Entry::Boxed(r), m.iter().map(|v| mix1(T::norm(*v))).collect());
            }
            Op::BoxZip(s1, s2) => {
                let i = need!(self.pick(s1, Ty::Boxed));
                let n = self.pool[i].m.len();
                let j = match self.pick_where(s2, |sl| sl.ty() == Ty::Boxed && sl.m.len() == n) {
                    Some(j) if j != i => j,
                    _ => {
                        self.new_arr(9, n);
                        self.pool.len() - 1
                    }
                };
                let m: Vec<u32> = self.pool[i].m.iter().zip(self.pool[j].m.iter()).map(|(a, b)| mix2(T::norm(*a), T::norm(*b))).collect();
                let (hi, lo) = if i > j { (i, j) } else { (j, i) };
                let shi = self.take(hi);
                let slo = self.take(lo);
                let (sa, sb) = if i > j { (shi, slo) } else { (slo, shi) };
                let (Entry::Boxed(a), Entry::Boxed(b)) = (sa.e, sb.e) else { unreachable!() };
                self.stats.lib_released = true;
                let r = box_pair_same!(a, b, (x, y) => DynBox::from_iter(n, x.zip(y, |l, r| { let v = mix2(l.get(), r.get()); drop((l, r)); T::mk(v) }).into_iter()), unreachable!());
                self.push(Entry::Boxed(r), m);
            }
            Op::BoxFold(s) => {
                let i = need!(self.pick(s, Ty::Boxed));
                let Slot { e, m } = self.take(i);
                let Entry::Boxed(b) = e else { unreachable!() };
                self.stats.lib_released = true;
                let want = m.iter().fold(1u32, |acc, v| mix2(acc, T::norm(*v)));
                let got = box_match!(b, b => b.fold(1u32, |acc, x| mix2(acc, x.get())));
                if got != want {
                    return Err(format!("boxed fold gave {got}, model {want}"));
                }
            }
            Op::BoxIntoSlice(s) | Op::BoxIntoVec(s) | Op::Unbox(s) => {
                let i = need!(self.pick(s, Ty::Boxed));
                let Slot { e, m } = self.take(i);
                let Entry::Boxed(b) = e else { unreachable!() };
                let e = match op {
                    Op::BoxIntoSlice(_) => Entry::Slice(b.into_boxed_slice()),
                    Op::BoxIntoVec(_) => Entry::Vec(b.into_vec()),
                    _ => Entry::Arr(b.unbox()),
                };
                self.push(e, m);
            }
            Op::VecToArr(s, d) | Op::VecToBox(s, d) => {
                let i = need!(self.pick_where(s, |sl| sl.ty() == Ty::Vec && sl.m.len() <= MAXN));
                let Slot { e, m } = self.take(i);
                let Entry::Vec(v) = e else { unreachable!() };
                let n = (m.len() as i64 + d.clamp(-1, 1) as i64).clamp(0, MAXN as i64) as usize;
                if matches!(op, Op::VecToArr(..)) {
                    match DynArr::try_from_vec(n, v) {
                        Ok(a) if n == m.len() => self.push(Entry::Arr(a), m),
                        Err(_) if n != m.len() => self.stats.lib_released = true,
                        Ok(_) => return Err(format!("TryFrom<Vec> accepted length {} for N = {n}", m.len())),
                        Err(_) => return Err(format!("TryFrom<Vec> rejected length {} for N = {n}", m.len())),
                    }
                } else {
                    self.stats.heap = true;
                    match DynBox::try_from_vec(n, v) {
                        Ok(a) if n == m.len() => self.push(Entry::Boxed(a), m),
                        Err(_) if n != m.len() => self.stats.lib_released = true,
                        Ok(_) => return Err(format!("try_from_vec accepted length {} for N = {n}", m.len())),
                        Err(_) => return Err(format!("try_from_vec rejected length {} for N = {n}", m.len())),
                    }
                }
            }
            Op::SliceToBox(s, d) | Op::SliceToArr(s, d) => {
                let i = need!(self.pick_where(s, |sl| sl.ty() == Ty::Slice && sl.m.len() <= MAXN));
                let Slot { e, m } = self.take(i);
                let Entry::Slice(v) = e else { unreachable!() };
                let n = (m.len() as i64 + d.clamp(-1, 1) as i64).clamp(0, MAXN as i64) as usize;
                self.stats.heap = true;
                if matches!(op, Op::SliceToArr(..)) {
                    match DynArr::try_from_boxed_slice(n, v) {
                        Ok(a) if n == m.len() => self.push(Entry::Arr(a), m),
                        Err(_) if n != m.len() => self.stats.lib_released = true,
                        Ok(_) => return Err(format!("TryFrom<Box<[T]>> accepted length {} for N = {n}", m.len())),
                        Err(_) => return Err(format!("TryFrom<Box<[T]>> rejected length {} for N = {n}", m.len())),
                    }
                } else {
                    match DynBox::try_from_boxed_slice(n, v) {
                        Ok(a) if n == m.len() => self.push(Entry::Boxed(a), m),
                        Err(_) if n != m.len() => self.stats.lib_released = true,
                        Ok(_) => return Err(format!("try_from_boxed_slice accepted length {} for N = {n}", m.len())),
                        Err(_) => return Err(format!("try_from_boxed_slice rejected length {} for N = {n}", m.len())),
                    }
                }
            }
            Op::ZipPlain(s, form, plain_left) => {
                let i = need!(self.pick(s, Ty::Arr));
                let n = self.pool[i].m.len();
                let (pf, af) = if plain_left { (form % 3, (form / 3) % 3) } else { ((form / 3) % 3, form % 3) };
                let base = self.fresh();
                self.next_val += n as u32;
                let pv: Vec<u32> = (0..n as u32).map(|k| base + k).collect();
                let m: Vec<u32> = self.pool[i].m.iter().zip(&pv).map(|(a, p)| if plain_left { mix2(*p, T::norm(*a)) } else { mix2(T::norm(*a), *p) }).collect();
                let Slot { e, m: ma } = self.pool.remove(i);
                let Entry::Arr(a) = e else { unreachable!() };
                let mut kept: Option<DynArr<T>> = None;
                if af == 0 {
                    self.stats.chained = true;
                    self.stats.lib_released = true;
                }
                macro_rules! zp {
                    ($l:expr, $r:expr) => {
                        DynArr::from_iter(n, $l.zip($r, |l, r| {
                            let v = mix2(pk(&l), pk(&r));
                            drop((l, r));
                            T::mk(v)
                        }))
                    };
                }
                let r = arr_match!(a, x => {
                    let mut p = GenericArray::<u32, _>::from_iter(pv.iter().copied());
                    fn same_len<A, B, N: ArrayLength>(_: &GenericArray<A, N>, _: &GenericArray<B, N>) {}
                    same_len(&x, &p);
                    let out = match (plain_left, pf, af) {
                        (true, 0, 0) => zp!(p, x),
                        (true, 0, 1) => { let o = zp!(p, &x); kept = Some(keep(x)); o }
                        (true, 0, _) => { let mut x = x; let o = zp!(p, &mut x); kept = Some(keep(x)); o }
                        (true, 1, 0) => zp!(&p, x),
                        (true, 1, 1) => { let o = zp!(&p, &x); kept = Some(keep(x)); o }
                        (true, 1, _) => { let mut x = x; let o = zp!(&p, &mut x); kept = Some(keep(x)); o }
                        (true, _, 0) => zp!(&mut p, x),
                        (true, _, 1) => { let o = zp!(&mut p, &x); kept = Some(keep(x)); o }
                        (true, _, _) => { let mut x = x; let o = zp!(&mut p, &mut x); kept = Some(keep(x)); o }
                        (false, 0, 0) => zp!(x, p),
                        (false, 1, 0) => zp!(x, &p),
                        (false, _, 0) => zp!(x, &mut p),
                        (false, 0, 1) => { let o = zp!(&x, p); kept = Some(keep(x)); o }
                        (false, 1, 1) => { let o = zp!(&x, &p); kept = Some(keep(x)); o }
                        (false, _, 1) => { let o = zp!(&x, &mut p); kept = Some(keep(x)); o }
                        (false, 0, _) => { let mut x = x; let o = zp!(&mut x, p); kept = Some(keep(x)); o }
                        (false, 1, _) => { let mut x = x; let o = zp!(&mut x, &p); kept = Some(keep(x)); o }
                        (false, _, _) => { let mut x = x; let o = zp!(&mut x, &mut p); kept = Some(keep(x)); o }
                    };
                    out
                });
                if let Some(k) = kept {
                    self.push(Entry::Arr(k), ma);
                }
                self.push(Entry::Arr(r), m);
            }
            Op::FailedCollect(n, d, boxed) => {
                let n = (n as usize).min(MAXN);
                let c = if d >= 0 { n + 1 + (d as usize % 3) } else { n.saturating_sub(1 + ((-(d as i32)) as usize % 2)) };
                if c == n {
                    return Ok(());
                }
                let base = self.next_val + 1;
                self.next_val += c as u32;
                let items: Vec<T> = (0..c as u32).map(|k| T::mk(base + k)).collect();
                self.stats.lib_released = true;
                // `filter` hides the upper bound, so the mismatch is only discovered while filling
                let ok = if boxed {
                    DynBox::try_boxed_from_iter(n, items.into_iter().filter(|_| true)).is_ok()
                } else {
                    DynArr::try_from_iter(n, items.into_iter().filter(|_| true)).is_ok()
                };
                if ok {
                    return Err(format!("a source of {c} items was collected into an array of length {n}"));
                }
            }
            Op::Drop(s) => {
                if self.pool.is_empty() {
                    return Ok(());
                }
                let i = (s as usize * self.pool.len()) >> 16;
                let sl = self.pool.remove(i);
                if let Entry::Iter(_) = &sl.e {
                    if !sl.m.is_empty() {
                        self.stats.abandoned_iter = true;
                        self.stats.lib_released = true;
                    }
                }
                if matches!(sl.e, Entry::Arr(_) | Entry::Boxed(_)) && !sl.m.is_empty() {
                    self.stats.lib_released = true;
                }
                drop(sl);
            }
        }
        Ok(())
    }
}

fn exec_typed<T: Elem + Clone + Default + Peek>(case: &Case, acc: &mut Acc) -> Result<(), String> {
    registry::reset();
    let mut w = World::<T> { pool: vec![], next_val: 1000, stats: Stats::default() };
    for (k, op) in case.ops.iter().enumerate() {
        w.apply(*op).map_err(|e| format!("op #{k} {:?}: {e}", op))?;
        w.stats.executed += 1;
        w.check_all(&format!("op #{k} {:?}", op))?;
    }
    let World { pool, stats, .. } = w;
    drop(pool);
    engine::end_case(false)?;
    let nontrivial = stats.executed >= 3 && stats.chained && stats.lib_released;
    acc.count(nontrivial, case);
    for (flag, name) in [
        (stats.abandoned_iter, "abandoned_iterator"),
        (stats.both_ends, "iterator_consumed_from_back"),
        (stats.regroup, "unflatten_flatten"),
        (stats.heap, "heap_roundtrip"),
        (stats.zero_len, "zero_length_operand"),
        (stats.chained, "chained"),
    ] {
        if flag {
            acc.class(name);
        }
    }
    acc.class(&format!("kind_{}", T::KIND));
    Ok(())
}

pub fn exec(case: &Case, acc: &mut Acc) -> Result<(), String> {
    match case.kind {
        Kind::Tracked => exec_typed::<Tracked>(case, acc),
        Kind::Zst => exec_typed::<TrackedZst>(case, acc),
        Kind::U32 => exec_typed::<u32>(case, acc),
    }
}

pub fn op_strategy() -> impl Strategy<Value = Op> {
    let s = || any::<u16>();
    let b = || any::<u8>();
    prop_oneof![
        6 => (0u8..12, 0u8..13).prop_map(|(h, n)| Op::New(h, n)),
        4 => s().prop_map(Op::IntoIter),
        3 => (s(), 0u8..3).prop_map(|(a, f)| Op::Map(a, f)),
        4 => (s(), s(), 0u8..9).prop_map(|(a, c, f)| Op::Zip(a, c, f)),
        2 => (s(), 0u8..3).prop_map(|(a, f)| Op::Fold(a, f)),
        2 => s().prop_map(Op::Append),
        2 => s().prop_map(Op::Prepend),
        2 => s().prop_map(Op::PopBack),
        2 => s().prop_map(Op::PopFront),
        3 => (s(), b()).prop_map(|(a, k)| Op::Split(a, k)),
        3 => (s(), s()).prop_map(|(a, c)| Op::Concat(a, c)),
        2 => (s(), b()).prop_map(|(a, k)| Op::Remove(a, k)),
        2 => (s(), b()).prop_map(|(a, k)| Op::SwapRemove(a, k)),
        3 => (s(), b(), 0u8..4).prop_map(|(a, n, x)| Op::Regroup(a, n, x)),
        1 => (s(), 0u8..2).prop_map(|(a, v)| Op::NativeRt(a, v)),
        1 => s().prop_map(Op::TupleRt),
        1 => s().prop_map(Op::ToVec),
        1 => s().prop_map(Op::ToBoxSlice),
        1 => s().prop_map(Op::ToBox),
        1 => s().prop_map(Op::CloneArr),
        3 => s().prop_map(Op::Next),
        3 => s().prop_map(Op::NextBack),
        2 => (s(), prop_oneof![9 => any::<u8>(), 1 => 252u8..=255]).prop_map(|(a, k)| Op::Nth(a, k)),
        2 => (s(), prop_oneof![9 => any::<u8>(), 1 => 252u8..=255]).prop_map(|(a, k)| Op::NthBack(a, k)),
        2 => (any::<bool>(), s(), s()).prop_map(|(arr, a, c)| if arr { Op::CloneFromArr(a, c) } else { Op::CloneFromIter(a, c) }),
        2 => s().prop_map(Op::CloneIter),
        1 => s().prop_map(Op::FoldRest),
        1 => s().prop_map(Op::RFoldRest),
        1 => s().prop_map(Op::Count),
        1 => s().prop_map(Op::Last),
        1 => (s(), any::<bool>()).prop_map(|(a, r)| Op::CollectRest(a, r)),
        1 => s().prop_map(Op::BoxIntoIter),
        1 => s().prop_map(Op::BoxMap),
        1 => (s(), s()).prop_map(|(a, c)| Op::BoxZip(a, c)),
        1 => s().prop_map(Op::BoxFold),
        1 => s().prop_map(Op::BoxIntoSlice),
        1 => s().prop_map(Op::BoxIntoVec),
        1 => s().prop_map(Op::Unbox),
        1 => (s(), -1i8..2).prop_map(|(a, d)| Op::VecToArr(a, d)),
        1 => (s(), -1i8..2).prop_map(|(a, d)| Op::VecToBox(a, d)),
        1 => (s(), -1i8..2).prop_map(|(a, d)| Op::SliceToBox(a, d)),
        1 => (s(), -1i8..2).prop_map(|(a, d)| Op::SliceToArr(a, d)),
        3 => s().prop_map(Op::Drop),
        3 => (s(), 0u8..9, any::<bool>()).prop_map(|(a, f, l)| Op::ZipPlain(a, f, l)),
        2 => (0u8..13, -2i8..3, any::<bool>()).prop_map(|(n, d, b)| Op::FailedCollect(n, d, b)),
    ]
}

pub fn case_strategy() -> impl Strategy<Value = Case> {
    (prop_oneof![4 => Just(Kind::Tracked), 1 => Just(Kind::Zst), 1 => Just(Kind::U32)], prop::collection::vec(op_strategy(), 0..40))
        .prop_map(|(kind, ops)| Case { kind, ops })
}

pub fn main() {
    let args = Args::parse();
    engine::install_hook();
    engine::maybe_replay_many::<Case>(PROP, &args, exec);
    let started = std::time::Instant::now();
    if let Some(p) = &args.replay {
        let case: Case = engine::load_replay(p);
        let mut acc = Acc::new();
        let r = engine::catch(|| exec(&case, &mut acc)).unwrap_or_else(|c| Err(format!("panic: {}", c.msg)));
        engine::finish_replay(PROP, p, r);
    }
    let cases = args.scale(400_000, 10) as u32;
    let acc = engine::parallel(&args, PROP, |w, workers, acc| {
        let strat = case_strategy();
        engine::prop_search(acc, args.seed, w as u64, cases / workers as u32, &strat, |c, acc| exec(c, acc));
    });
    engine::finish(
        &args,
        started,
        acc,
        Report {
            prop: PROP,
            level: "exploration",
            rule: "cases = histories of 0..40 ownership-moving operations (44 operation kinds, including zips of the tracked arrays with plain no-drop-glue arrays on either side and collects that must fail) over a pool of live values: arrays of length 0..=12, by-value iterators in arbitrary positions, Box<GenericArray>, Vec, Box<[T]> and loose elements; operands are chosen by selector among the eligible pool entries so outputs feed later operations. \
                   Oracle: drop registry (no double drop, no garbage drop, no observation after drop, nothing live at the end) plus a value model of every pool entry compared after every step. \
                   non-trivial = at least 3 operations, at least one operation consuming the output of an earlier one, and at least one element released by the library rather than the harness; distinct = distinct (kind, operation list)",
            exhaustive: false,
            assumptions: vec!["panic-free histories only (C04/C05 cover panics)".into(), "lengths 0..=12 only; larger lengths are covered per operation by C06/C09/C11".into()],
            extra: serde_json::json!({}),
        },
    );
}


/// bytes -> case (coverage-guided fuzzing front end): byte 0 = element kind, then one operation per 6 bytes
pub fn decode(data: &[u8]) -> Case {
    let kind = match data.first().copied().unwrap_or(0) % 6 {
        0..=3 => Kind::Tracked,
        4 => Kind::Zst,
        _ => Kind::U32,
    };
    let mut ops = vec![];
    for ch in data.get(1..).unwrap_or(&[]).chunks(6) {
        if ops.len() >= 64 {
            break;
        }
        let g = |i: usize| ch.get(i).copied().unwrap_or(0);
        let s1 = u16::from_le_bytes([g(1), g(2)]);
        let s2 = u16::from_le_bytes([g(3), g(4)]);
        let b = g(5);
        ops.push(match g(0) % 46 {
            44 => Op::CloneFromArr(s1, s2),
            45 => Op::CloneFromIter(s1, s2),
            0 => Op::New(b % 12, (s1 % 13) as u8),
            1 => Op::IntoIter(s1),
            2 => Op::Map(s1, b % 3),
            3 => Op::Zip(s1, s2, b % 9),
            4 => Op::Fold(s1, b % 3),
            5 => Op::Append(s1),
            6 => Op::Prepend(s1),
            7 => Op::PopBack(s1),
            8 => Op::PopFront(s1),
            9 => Op::Split(s1, b),
            10 => Op::Concat(s1, s2),
            11 => Op::Remove(s1, b),
            12 => Op::SwapRemove(s1, b),
            13 => Op::Regroup(s1, b, (s2 % 4) as u8),
            14 => Op::NativeRt(s1, b % 2),
            15 => Op::TupleRt(s1),
            16 => Op::ToVec(s1),
            17 => Op::ToBoxSlice(s1),
            18 => Op::ToBox(s1),
            19 => Op::CloneArr(s1),
            20 => Op::Next(s1),
            21 => Op::NextBack(s1),
            22 => Op::Nth(s1, b),
            23 => Op::NthBack(s1, b),
            24 => Op::CloneIter(s1),
            25 => Op::FoldRest(s1),
            26 => Op::RFoldRest(s1),
            27 => Op::Count(s1),
            28 => Op::Last(s1),
            29 => Op::CollectRest(s1, b % 2 == 1),
            30 => Op::BoxIntoIter(s1),
            31 => Op::BoxMap(s1),
            32 => Op::BoxZip(s1, s2),
            33 => Op::BoxFold(s1),
            34 => Op::BoxIntoSlice(s1),
            35 => Op::BoxIntoVec(s1),
            36 => Op::Unbox(s1),
            37 => Op::VecToArr(s1, (b % 3) as i8 - 1),
            38 => Op::VecToBox(s1, (b % 3) as i8 - 1),
            39 => Op::SliceToBox(s1, (b % 3) as i8 - 1),
            40 => Op::SliceToArr(s1, (b % 3) as i8 - 1),
            41 => Op::Drop(s1),
            42 => Op::ZipPlain(s1, b % 9, s2 % 2 == 1),
            _ => Op::FailedCollect((s1 % 13) as u8, (b % 5) as i8 - 2, s2 % 2 == 1),
        });
    }
    Case { kind, ops }
}
