//! C07 - collecting from an iterator yields an array only for exactly N items.

use generic_array::{ArrayLength, GenericArray};
use harness::engine::{self, Acc, Args, Report};
use harness::registry::{self, Elem, Tracked, TrackedZst};
use harness::script::{Hint, ScriptIter};
use harness::with_lat;
use proptest::prelude::*;
use serde::{Deserialize, Serialize};

pub const PROP: &str = "C07";

#[derive(Clone, Copy, Debug, Serialize, Deserialize, PartialEq, Eq, Hash)]
pub enum Source {
    /// scripted source: hint behaviour, number of items it yields again after its first None (0 = fused)
    Script(Hint, usize),
    /// std sources with exact/trusted lengths
    Range,
    VecIntoIter,
    Chain,
    TakeOfLonger,
    /// std adaptor that hides the upper bound
    Filter,
}

#[derive(Clone, Debug, Serialize, Deserialize, PartialEq, Eq, Hash)]
pub struct Case {
    pub n: usize,
    /// number of items the source produces before its first None
    pub c: usize,
    pub source: Source,
    /// 0 try_from_iter, 1 from_iter / collect, 2 try_boxed_from_iter, 3 boxed collect
    pub target: u8,
    /// pass `&mut source` instead of the source itself
    pub by_ref: bool,
    pub base: u32,
    /// the source panics in its k-th next() call
    #[serde(default)]
    pub panic_at: Option<u64>,
    /// zero-sized drop-tracked elements instead of the 24-byte ones
    #[serde(default)]
    pub zst: bool,
}

enum Res<N: ArrayLength> {
    Ok(Vec<u32>, Vec<u32>),
    Err,
    Panic(String),
    #[allow(dead_code)]
    Ph(std::marker::PhantomData<N>),
}

fn call<T: Elem, N: ArrayLength, I: Iterator<Item = T>>(target: u8, it: I) -> Res<N> {
    let read = |s: &[T]| (s.iter().map(|x| x.get()).collect::<Vec<u32>>(), s.iter().filter_map(|x| x.ident()).collect::<Vec<u32>>());
    match target {
        0 => match GenericArray::<T, N>::try_from_iter(it) {
            Ok(a) => {
                let (v, i) = read(&a);
                Res::Ok(v, i)
            }
            Err(_) => Res::Err,
        },
        1 => match engine::catch(|| it.collect::<GenericArray<T, N>>()) {
            Ok(a) => {
                let (v, i) = read(&a);
                Res::Ok(v, i)
            }
            Err(c) if c.injected => std::panic::panic_any(registry::Injected("propagated")),
            Err(c) => Res::Panic(c.msg),
        },
        2 => match GenericArray::<T, N>::try_boxed_from_iter(it) {
            Ok(a) => {
                let (v, i) = read(&a);
                Res::Ok(v, i)
            }
            Err(_) => Res::Err,
        },
        _ => match engine::catch(|| it.collect::<Box<GenericArray<T, N>>>()) {
            Ok(a) => {
                let (v, i) = read(&a);
                Res::Ok(v, i)
            }
            Err(c) if c.injected => std::panic::panic_any(registry::Injected("propagated")),
            Err(c) => Res::Panic(c.msg),
        },
    }
}

fn exec_typed<T: Elem, N: ArrayLength>(case: &Case, acc: &mut Acc) -> Result<(), String> {
    registry::reset();
    let n = N::USIZE;
    let c = case.c;
    let want: Vec<u32> = (0..c as u32).map(|i| T::norm(case.base + i)).collect();
    let mk = |i: usize| T::mk(case.base + i as u32);
    let mut truthful = true;
    let mut rules_out = false;
    let mut probe = None;
    let mut leftover_in_source = 0usize;
    let mut keep_source: Option<ScriptIter<T>> = None;
    let res: Res<N> = match case.source {
        Source::Script(hint, after) => {
            truthful = hint.truthful(c) && after == 0;
            rules_out = hint.rules_out(c, n);
            let items: Vec<T> = (0..c).map(mk).collect();
            let extra: Vec<T> = (0..after).map(|i| T::mk(900_000 + i as u32)).collect();
            let (mut src, p) = ScriptIter::new(items, extra, hint, case.panic_at.is_some());
            probe = Some(p);
            if let Some(k) = case.panic_at {
                // fault: the source panics in its k-th next(); the panic must propagate and nothing may be lost
                registry::panic_at_call(k);
                let target = case.target;
                let r = engine::catch(move || drop(call::<T, N, _>(target, src)));
                let fired = registry::call_panic_fired();
                registry::clear_call_panic();
                match r {
                    Err(c) if c.injected && fired => {}
                    Err(c) => return Err(format!("unexpected panic: {}", c.msg)),
                    Ok(()) if fired => return Err("the panic raised by the source did not propagate".into()),
                    Ok(()) => {}
                }
                engine::end_case(false)?;
                acc.count(fired, case);
                if fired {
                    acc.class("source_panicked_in_next");
                }
                return Ok(());
            }
            let r = if case.by_ref {
                let r = call::<T, N, _>(case.target, &mut src);
                // un-pulled items are still owned by the source and live
                leftover_in_source = src.remaining_all();
                keep_source = Some(src);
                r
            } else {
                call::<T, N, _>(case.target, src)
            };
            r
        }
        Source::Range => call::<T, N, _>(case.target, (0..c).map(mk)),
        Source::VecIntoIter => call::<T, N, _>(case.target, (0..c).map(mk).collect::<Vec<_>>().into_iter()),
        Source::Chain => {
            let h = c / 2;
            let a: Vec<T> = (0..h).map(mk).collect();
            let b: Vec<T> = (h..c).map(mk).collect();
            call::<T, N, _>(case.target, a.into_iter().chain(b))
        }
        Source::TakeOfLonger => call::<T, N, _>(case.target, (0..c + 5).map(mk).take(c)),
        Source::Filter => call::<T, N, _>(case.target, (0..c).map(mk).filter(|_| true)),
    };
    let is_panicking_target = case.target == 1 || case.target == 3;
    let outcome = match &res {
        Res::Ok(vals, _) => {
            if c != n {
                return Err(format!("Ok although the source produced {c} items and N = {n}"));
            }
            if *vals != want {
                return Err(format!("Ok, but element i is not the i-th item produced: {:?} vs {:?}", &vals[..vals.len().min(8)], &want[..want.len().min(8)]));
            }
            if rules_out {
                return Err(format!("Ok although the size hint of the source rules N = {n} out"));
            }
            "ok"
        }
        Res::Err => {
            if is_panicking_target {
                return Err("from_iter returned an error value?".into());
            }
            if c == n && truthful {
                return Err(format!("LengthError although a truthful source produced exactly N = {n} items"));
            }
            "err"
        }
        Res::Panic(msg) => {
            if c == n && truthful {
                return Err(format!("from_iter panicked ({msg}) although a truthful source produced exactly N = {n} items"));
            }
            if !msg.contains(&format!("expected {n} items")) {
                return Err(format!("from_iter panicked with an unexpected message: {msg}"));
            }
            "panic"
        }
        Res::Ph(_) => unreachable!(),
    };
    if let Some(p) = &probe {
        if p.polled_after_none.get() {
            return Err("the source was polled again after it had returned None".into());
        }
        if p.yielded.get() > n + 1 {
            return Err(format!("{} items were pulled, more than N + 1 = {}", p.yielded.get(), n + 1));
        }
        if !matches!(res, Res::Ok(..)) {
            // every item pulled has been dropped exactly once by now; un-pulled ones are untouched
            let pulled = p.yielded.get();
            let live_now = if T::KIND == "tracked_zst" { let (cr, dr) = registry::zst_counts(); (cr - dr) as usize } else { registry::live() };
            let expect_live = if case.by_ref { leftover_in_source } else { 0 };
            if live_now != expect_live {
                return Err(format!(
                    "after the failed collect {live_now} elements are still live, expected {expect_live} (pulled {pulled} of {c}); pulled items must be dropped exactly once and the rest stay with the source"
                ));
            }
        }
        acc.class(&format!("next_calls_{}", if p.next_calls.get() <= n { "le_n" } else if p.next_calls.get() == n + 1 { "n_plus_1" } else { "more" }));
    }
    drop(res);
    drop(keep_source);
    engine::end_case(false)?;
    let nontrivial = c != n || !truthful || matches!(case.source, Source::Script(h, _) if !matches!(h, Hint::Exact));
    acc.count(nontrivial, case);
    acc.class(&format!("outcome_{outcome}"));
    acc.class(if c < n { "c_lt_n" } else if c == n { "c_eq_n" } else { "c_gt_n" });
    Ok(())
}

/// 2^48 one-byte elements: a legal boxed type that no allocator can serve.
pub const HUGE: usize = 1 << 48;

/// Boxed targets of a length that cannot be allocated, from a source whose size hint already rules the length out: the answer
/// is LengthError / the documented panic, and it has to come *without* asking the allocator for 256 TiB first (which would end
/// the process through the allocation-error path instead).
fn huge_boxed(case: &Case, acc: &mut Acc) -> Result<(), String> {
    type H = generic_array::typenum::U281474976710656;
    registry::reset();
    let Source::Script(hint, _) = case.source else { return Ok(()) };
    if !hint.rules_out(case.c, HUGE) || case.target < 2 {
        return Ok(());
    }
    let items: Vec<u8> = (0..case.c).map(|i| i as u8).collect();
    let (src, probe) = ScriptIter::new(items, vec![], hint, false);
    if case.target == 2 {
        if GenericArray::<u8, H>::try_boxed_from_iter(src).is_ok() {
            return Err(format!("Ok for N = 2^48 from a source of {} items", case.c));
        }
    } else {
        match engine::catch(move || drop(src.collect::<Box<GenericArray<u8, H>>>())) {
            Ok(()) => return Err(format!("boxed collect returned for N = 2^48 from a source of {} items", case.c)),
            Err(c) if c.msg.contains(&format!("expected {HUGE} items")) => {}
            Err(c) => return Err(format!("boxed collect for N = 2^48 panicked with an unexpected message: {}", c.msg)),
        }
    }
    if probe.yielded.get() > case.c {
        return Err("more items pulled than the source holds".into());
    }
    acc.count(true, case);
    acc.class("boxed_length_that_cannot_be_allocated_hint_rules_it_out");
    Ok(())
}

pub fn exec(case: &Case, acc: &mut Acc) -> Result<(), String> {
    if case.n == HUGE {
        return huge_boxed(case, acc);
    }
    if case.zst {
        with_lat!(case.n, N, exec_typed::<TrackedZst, N>(case, acc))
    } else {
        with_lat!(case.n, N, exec_typed::<Tracked, N>(case, acc))
    }
}

fn counts_for(n: usize) -> Vec<usize> {
    if n <= 12 {
        (0..=n + 3).collect()
    } else {
        vec![0, 1, n - 1, n, n + 1, n + 3]
    }
}

fn grid() -> Vec<Case> {
    let mut out = vec![];
    for c in 0..4usize {
        for hint in [Hint::Exact, Hint::Lower0, Hint::Loose, Hint::LieLow, Hint::LieHigh, Hint::Fixed(7), Hint::Fixed(HUGE - 1), Hint::Fixed(HUGE + 1), Hint::Inverted(HUGE + 1, HUGE), Hint::Countdown(HUGE - 1), Hint::CountdownExact(1000)] {
            for target in [2u8, 3] {
                out.push(Case { n: HUGE, c, source: Source::Script(hint, 0), target, by_ref: false, base: 0, panic_at: None, zst: false });
            }
        }
    }
    for &n in harness::lens::LAT {
        for c in counts_for(n) {
            let mut sources = vec![];
            for hint in [Hint::Exact, Hint::Lower0, Hint::NoUpper, Hint::Unknown, Hint::Loose, Hint::LieLow, Hint::LieHigh, Hint::Fixed(n), Hint::Fixed(n + 1), Hint::Fixed(n.saturating_sub(1)), Hint::Inverted(n + 2, n.saturating_sub(1)), Hint::Inverted(n + 1, n), Hint::Inverted(n, n.saturating_sub(1)), Hint::Countdown(n), Hint::CountdownExact(n), Hint::Countdown(n + 1), Hint::UpperMax, Hint::LowerUpperMax] {
                sources.push(Source::Script(hint, 0));
                if matches!(hint, Hint::Exact | Hint::Unknown | Hint::Fixed(_)) {
                    sources.push(Source::Script(hint, 2));
                }
            }
            sources.extend([Source::Range, Source::VecIntoIter, Source::Chain, Source::TakeOfLonger, Source::Filter]);
            for source in sources {
                for target in 0..4u8 {
                    for by_ref in [false, true] {
                        if by_ref && !matches!(source, Source::Script(..)) {
                            continue;
                        }
                        if n > 257 && (target >= 2 || by_ref) && c > 1 && c != n {
                            continue;
                        }
                        out.push(Case { n, c, source, target, by_ref, base: 1000, panic_at: None, zst: false });
                        if n <= 33 || c == n {
                            out.push(Case { n, c, source, target, by_ref, base: 1000, panic_at: None, zst: true });
                        }
                        if n <= 12 && !by_ref && matches!(source, Source::Script(Hint::Exact | Hint::Unknown, 0)) {
                            for k in 0..=(c.min(n + 1) as u64) {
                                out.push(Case { n, c, source, target, by_ref, base: 1000, panic_at: Some(k), zst: false });
                                out.push(Case { n, c, source, target, by_ref, base: 1000, panic_at: Some(k), zst: true });
                            }
                        }
                    }
                }
            }
        }
    }
    out
}

fn random_strategy() -> impl Strategy<Value = Case> {
    let lat = harness::lens::LAT;
    (0..lat.len(), any::<u16>(), 0usize..18, 0usize..3, 0u8..4, any::<bool>(), 1u32..1_000_000, 0usize..6).prop_map(move |(li, cs, h, after, target, by_ref, base, fx)| {
        let n = lat[li];
        let c = match cs % 4 {
            0 => n,
            _ => (cs as usize * (n + 4)) >> 16,
        };
        let hint = match h {
            0 => Hint::Exact,
            1 => Hint::Lower0,
            2 => Hint::NoUpper,
            3 => Hint::Unknown,
            4 => Hint::Loose,
            5 => Hint::LieLow,
            6 => Hint::LieHigh,
            7..=9 => Hint::Fixed((n + fx).saturating_sub(2)),
            13 => Hint::Countdown((n + fx).saturating_sub(2)),
            16 => Hint::UpperMax,
            17 => Hint::LowerUpperMax,
            14 | 15 => Hint::CountdownExact((n + fx).saturating_sub(2)),
            _ => Hint::Inverted(n + fx, (n + fx).saturating_sub(1 + fx)),
        };
        Case { n, c, source: Source::Script(hint, after), target, by_ref, base, panic_at: None, zst: base % 5 == 0 }
    })
}

pub fn main() {
    let args = Args::parse();
    engine::install_hook();
    engine::maybe_replay_many::<Case>(PROP, &args, exec);
    let started = std::time::Instant::now();
    if let Some(p) = &args.replay {
        let case: Case = engine::load_replay(p);
        let mut acc = Acc::new();
        let r = engine::catch(|| exec(&case, &mut acc)).unwrap_or_else(|c| Err(format!("panic: {}", c.msg)));
        engine::finish_replay(PROP, p, r);
    }
    let g = grid();
    let random_cases = args.scale(100_000, 8) as u32;
    let acc = engine::parallel(&args, PROP, |w, workers, acc| {
        for (i, c) in g.iter().enumerate() {
            if i % workers == w {
                acc.run(c, exec);
            }
        }
        let strat = random_strategy();
        engine::prop_search(acc, args.seed, w as u64, random_cases / workers as u32, &strat, |c, acc| exec(c, acc));
    });
    engine::finish(
        &args,
        started,
        acc,
        Report {
            prop: PROP,
            level: "exploration",
            rule: "case = (N in the 36-length lattice (to 4096), 24-byte or zero-sized drop-tracked elements, produced count c (every 0..=N+3 for N<=12, else 0,1,N-1,N,N+1,N+3), source, target, by-value or &mut). Sources: a scripted iterator with 18 size_hint behaviours (upper bound usize::MAX, exact, lower 0, no upper, unknown, loose, lying low, lying high, claiming exactly N / N+1 / N-1 whatever it holds, inconsistent hints whose lower bound exceeds the upper bound, and hints that count down from a claimed total N or N+1 as items are pulled and so report nothing-left after N items whatever the source still holds), fused or yielding again after its first None, and std sources (Range, vec::IntoIter, Chain, Take, Filter) that reach the TrustedLen specialisations. Targets: try_from_iter, from_iter/collect, try_boxed_from_iter, boxed collect; the two boxed targets also for N = 2^48 one-byte elements (which cannot be allocated) from sources whose hint rules that length out - LengthError / the documented panic must come back without an allocation attempt. For N<=12 additionally a panic injected into every next() call index of the scripted source. Grid enumerated completely, plus proptest-random cases. \
                   Oracle computed from the script alone: Ok => c = N and element i is the i-th item; truthful and c = N => Ok; c != N or a hint that rules N out => LengthError / 'expected N items' panic; at most N+1 items pulled; never polled after None; every pulled item dropped exactly once on failure and un-pulled items still with the source. \
                   non-trivial = c != N, or an untruthful / inexact hint, or a non-fused source; distinct = distinct case tuples",
            exhaustive: false,
            assumptions: vec!["the exact poll count and the number of size_hint calls are not asserted (std specialisations may legitimately poll less)".into()],
            extra: serde_json::json!({"grid_cases": g.len()}),
        },
    );
}
