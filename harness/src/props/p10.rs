//! C10 - chunk regrouping partitions a slice exactly, without copying (run-time half; the const half is gen/c10.py).

use generic_array::typenum::Const;
use generic_array::{ArrayLength, GenericArray, IntoArrayLength};
use harness::engine::{self, Acc, Args, Report};
use harness::registry::{self, Elem};
use serde::{Deserialize, Serialize};

pub const PROP: &str = "C10";

#[derive(Clone, Copy, Debug, Serialize, Deserialize, PartialEq, Eq, Hash)]
pub enum Kind {
    U8,
    U32,
    Pair,
    Unit,
    U64,
    Big72,
    Al32,
}

#[derive(Clone, Debug, Serialize, Deserialize, PartialEq, Eq, Hash)]
pub struct Case {
    pub n: usize,
    pub l: usize,
    pub kind: Kind,
    pub mutable: bool,
    pub salt: u32,
}

macro_rules! lat_const {
    ($n:expr, $N:ident, $K:ident, $body:expr) => {
        lat_const!(@go $n, $N, $K, $body, [0 U0, 1 U1, 2 U2, 3 U3, 4 U4, 5 U5, 7 U7, 8 U8, 16 U16, 17 U17, 31 U31, 32 U32, 33 U33, 63 U63, 64 U64,
            100 U100, 255 U255, 256 U256, 1000 U1000, 1024 U1024, 2048 U2048, 4096 U4096])
    };
    (@go $n:expr, $N:ident, $K:ident, $body:expr, [$($num:literal $ty:ident),*]) => {
        match $n {
            $( $num => { #[allow(dead_code)] type $N = generic_array::typenum::$ty; #[allow(dead_code)] const $K: usize = $num; $body } )*
            other => panic!("length {} not in lattice", other),
        }
    };
}
const LENS: &[usize] = &[0, 1, 2, 3, 4, 5, 7, 8, 16, 17, 31, 32, 33, 63, 64, 100, 255, 256, 1000, 1024, 2048, 4096];

fn vals<T: Elem>(s: &[T]) -> Vec<u32> {
    s.iter().map(|x| x.get()).collect()
}

fn chunk_case<T: Elem + Clone, N: ArrayLength, const K: usize>(l: usize, mutable: bool, salt: u32) -> Result<(), String>
where
    Const<K>: IntoArrayLength<ArrayLength = N>,
{
    let n = N::USIZE;
    let sz = core::mem::size_of::<T>();
    let mut src: Vec<T> = (0..l).map(|i| T::mk(salt.wrapping_add(i as u32 * 7))).collect();
    let want = vals(&src);
    let base = src.as_ptr() as usize;
    if n == 0 {
        // empty slice -> two empty results; non-empty -> panic
        let r = if mutable {
            engine::catch(|| {
                let (c, r) = GenericArray::<T, N>::chunks_from_slice_mut(&mut src);
                (c.len(), r.len())
            })
        } else {
            engine::catch(|| {
                let (c, r) = GenericArray::<T, N>::chunks_from_slice(&src);
                (c.len(), r.len())
            })
        };
        // slices of zero-length arrays: from_chunks / into_chunks keep address and count whatever the count is
        for m in [0usize, 1, 3] {
            let mut native: Vec<[T; K]> = (0..m).map(|_| core::array::from_fn(|_| T::mk(0))).collect();
            let p = native.as_ptr() as usize;
            let g = GenericArray::<T, N>::from_chunks(&native);
            if g.len() != m || g.as_ptr() as usize != p {
                return Err(format!("from_chunks with N = 0: {} arrays at {:#x}, expected {m} at the source address", g.len(), g.as_ptr() as usize));
            }
            let back = GenericArray::<T, N>::into_chunks(g);
            if back.len() != m || back.as_ptr() as usize != p {
                return Err(format!("into_chunks with N = 0: {} arrays, expected {m}", back.len()));
            }
            if GenericArray::<T, N>::slice_from_chunks(g).len() != 0 {
                return Err("slice_from_chunks with N = 0 is not empty".into());
            }
            let gm = GenericArray::<T, N>::from_chunks_mut(&mut native);
            if gm.len() != m || gm.as_ptr() as usize != p {
                return Err(format!("from_chunks_mut with N = 0: {} arrays, expected {m}", gm.len()));
            }
            let bm = GenericArray::<T, N>::into_chunks_mut(gm);
            if bm.len() != m || bm.as_ptr() as usize != p {
                return Err(format!("into_chunks_mut with N = 0: {} arrays, expected {m}", bm.len()));
            }
        }
        return match (l, r) {
            (0, Ok((0, 0))) => Ok(()),
            (0, Ok(x)) => Err(format!("N = 0 with an empty slice gave lengths {:?}, expected two empty results", x)),
            (0, Err(c)) => Err(format!("N = 0 with an empty slice panicked: {}", c.msg)),
            (_, Ok(x)) => Err(format!("N = 0 with a non-empty slice returned {:?} instead of panicking", x)),
            (_, Err(_)) => Ok(()),
        };
    }
    // reference: std's chunks_exact
    let ref_chunks = l / n;
    let ref_rem = l % n;
    let (cptr, clen, rptr, rlen) = if mutable {
        let (c, r) = GenericArray::<T, N>::chunks_from_slice_mut(&mut src);
        (c.as_ptr() as usize, c.len(), r.as_ptr() as usize, r.len())
    } else {
        let (c, r) = GenericArray::<T, N>::chunks_from_slice(&src);
        (c.as_ptr() as usize, c.len(), r.as_ptr() as usize, r.len())
    };
    // only addresses and lengths are inspected before they are known to be in bounds
    if clen != ref_chunks || rlen != ref_rem {
        return Err(format!("L = {l}, N = {n}: {clen} chunks and a remainder of {rlen}, expected floor(L/N) = {ref_chunks} and L mod N = {ref_rem}"));
    }
    if cptr != base {
        return Err(format!("L = {l}, N = {n}: chunks start {} bytes from the source", cptr.wrapping_sub(base) as isize));
    }
    if rptr != base + ref_chunks * n * sz {
        return Err(format!("L = {l}, N = {n}: remainder starts at byte offset {}, expected {} (chunks and remainder must tile the source)", rptr.wrapping_sub(base) as isize, ref_chunks * n * sz));
    }
    if core::mem::size_of::<GenericArray<T, N>>() != n * sz {
        return Err("chunk type is not N * size_of::<T>() bytes".into());
    }
    // contents, chunk by chunk, against std's chunks_exact
    {
        let (c, r) = GenericArray::<T, N>::chunks_from_slice(&src);
        let std_chunks = src.chunks_exact(n);
        if vals(r) != vals(std_chunks.remainder()) {
            return Err(format!("L = {l}, N = {n}: remainder contents differ from chunks_exact().remainder()"));
        }
        for (i, (mine, theirs)) in c.iter().zip(std_chunks).enumerate() {
            if mine.as_ptr() as usize != theirs.as_ptr() as usize || vals(mine) != vals(theirs) {
                return Err(format!("L = {l}, N = {n}: chunk {i} differs from chunks_exact"));
            }
        }
        // inverse
        let flat = GenericArray::<T, N>::slice_from_chunks(c);
        if flat.as_ptr() as usize != base || flat.len() != ref_chunks * n {
            return Err(format!("slice_from_chunks: {} elements at offset {}, expected {} at 0", flat.len(), (flat.as_ptr() as usize).wrapping_sub(base) as isize, ref_chunks * n));
        }
        if vals(flat) != want[..ref_chunks * n] {
            return Err("slice_from_chunks contents differ from the source".into());
        }
        // native-array chunk views
        let native: &[[T; K]] = GenericArray::<T, N>::into_chunks(c);
        if native.as_ptr() as usize != base || native.len() != ref_chunks {
            return Err(format!("into_chunks: {} arrays at offset {}, expected {ref_chunks} at 0", native.len(), (native.as_ptr() as usize).wrapping_sub(base) as isize));
        }
        let back: &[GenericArray<T, N>] = GenericArray::<T, N>::from_chunks(native);
        if back.as_ptr() as usize != base || back.len() != ref_chunks {
            return Err(format!("from_chunks: {} arrays, expected {ref_chunks} at the same address", back.len()));
        }
        for (i, a) in native.iter().enumerate() {
            if vals(a) != want[i * n..(i + 1) * n] {
                return Err(format!("into_chunks: array {i} differs from the source"));
            }
        }
    }
    if mutable {
        let mut want2 = want.clone();
        {
            let (c, r) = GenericArray::<T, N>::chunks_from_slice_mut(&mut src);
            if let Some(last) = c.last_mut() {
                last[n - 1] = T::mk(salt ^ 0xA1);
                want2[ref_chunks * n - 1] = T::norm(salt ^ 0xA1);
            }
            if let Some(first) = r.first_mut() {
                *first = T::mk(salt ^ 0xB2);
                want2[ref_chunks * n] = T::norm(salt ^ 0xB2);
            }
            let flat = GenericArray::<T, N>::slice_from_chunks_mut(c);
            if flat.as_ptr() as usize != base || flat.len() != ref_chunks * n {
                return Err(format!("slice_from_chunks_mut: {} elements, expected {}", flat.len(), ref_chunks * n));
            }
            if let Some(x) = flat.first_mut() {
                *x = T::mk(salt ^ 0xC3);
                want2[0] = T::norm(salt ^ 0xC3);
            }
        }
        {
            let (c, _) = GenericArray::<T, N>::chunks_from_slice_mut(&mut src);
            let native: &mut [[T; K]] = GenericArray::<T, N>::into_chunks_mut(c);
            if native.as_ptr() as usize != base || native.len() != ref_chunks {
                return Err(format!("into_chunks_mut: {} arrays, expected {ref_chunks}", native.len()));
            }
            if ref_chunks > 0 && n > 1 {
                native[0][1] = T::mk(salt ^ 0xD4);
                want2[1] = T::norm(salt ^ 0xD4);
            }
            let back: &mut [GenericArray<T, N>] = GenericArray::<T, N>::from_chunks_mut(native);
            if back.as_ptr() as usize != base || back.len() != ref_chunks {
                return Err(format!("from_chunks_mut: {} arrays, expected {ref_chunks}", back.len()));
            }
        }
        if vals(&src) != want2 {
            return Err(format!("L = {l}, N = {n}: writes through the mutable chunk views did not land in the source"));
        }
    }
    Ok(())
}

/// `()` elements: a slice longer than any allocation could be (it occupies no memory), regrouped into N-chunks and back.
/// Counts come from the same floor division, every part starts at the source address (the stride is zero).
fn huge_unit_chunks<N: ArrayLength, const K: usize>(l: usize, mutable: bool) -> Result<(), String>
where
    Const<K>: IntoArrayLength<ArrayLength = N>,
{
    let n = N::USIZE;
    if n == 0 {
        return Ok(());
    }
    let base = core::ptr::NonNull::<()>::dangling().as_ptr();
    let src: &mut [()] = unsafe { core::slice::from_raw_parts_mut(base, l) };
    let (cl, cp, rl, rp) = if mutable {
        let (c, r) = GenericArray::<(), N>::chunks_from_slice_mut(src);
        (c.len(), c.as_ptr() as usize, r.len(), r.as_ptr() as usize)
    } else {
        let (c, r) = GenericArray::<(), N>::chunks_from_slice(src);
        (c.len(), c.as_ptr() as usize, r.len(), r.as_ptr() as usize)
    };
    if cl != l / n || rl != l % n {
        return Err(format!("L = {l} zero-sized elements, N = {n}: {cl} chunks and a remainder of {rl}, expected {} and {}", l / n, l % n));
    }
    if cp != base as usize || rp != base as usize {
        return Err(format!("L = {l} zero-sized elements, N = {n}: parts at {cp:#x} / {rp:#x}, the source is at {:#x}", base as usize));
    }
    let chunks: &[GenericArray<(), N>] = unsafe { core::slice::from_raw_parts(base as *const GenericArray<(), N>, l / n) };
    let flat = GenericArray::<(), N>::slice_from_chunks(chunks);
    if flat.len() != (l / n) * n || flat.as_ptr() as usize != base as usize {
        return Err(format!("slice_from_chunks of {} zero-sized N = {n} chunks: length {} (expected {})", l / n, flat.len(), (l / n) * n));
    }
    let native = GenericArray::<(), N>::into_chunks(chunks);
    if native.len() != l / n || native.as_ptr() as usize != base as usize {
        return Err(format!("into_chunks of {} zero-sized chunks gave {} native arrays", l / n, native.len()));
    }
    let back = GenericArray::<(), N>::from_chunks(native);
    if back.len() != l / n || back.as_ptr() as usize != base as usize {
        return Err(format!("from_chunks of {} zero-sized native arrays gave {} chunks", l / n, back.len()));
    }
    Ok(())
}

fn exec_typed<T: Elem + Clone>(case: &Case, acc: &mut Acc) -> Result<(), String> {
    registry::reset();
    if case.kind == Kind::Unit && case.l > 1 << 24 {
        lat_const!(case.n, N, K, huge_unit_chunks::<N, K>(case.l, case.mutable))?;
        acc.count(true, case);
        acc.class("zero_sized_slice_longer_than_any_allocation");
        return Ok(());
    }
    lat_const!(case.n, N, K, chunk_case::<T, N, K>(case.l, case.mutable, case.salt))?;
    engine::end_case(false)?;
    let n = case.n;
    acc.count(n > 0 && case.l % n != 0 || n == 0 || case.l >= 2 * n, case);
    if n == 0 {
        acc.class("N_zero");
    } else if case.l % n == 0 {
        acc.class("exact_multiple");
    } else {
        acc.class("with_remainder");
    }
    Ok(())
}

pub fn exec(case: &Case, acc: &mut Acc) -> Result<(), String> {
    match case.kind {
        Kind::U8 => exec_typed::<u8>(case, acc),
        Kind::U32 => exec_typed::<u32>(case, acc),
        Kind::Pair => exec_typed::<(u8, u16)>(case, acc),
        Kind::Unit => exec_typed::<()>(case, acc),
        Kind::U64 => exec_typed::<u64>(case, acc),
        Kind::Big72 => exec_typed::<harness::registry::Big72>(case, acc),
        Kind::Al32 => exec_typed::<harness::registry::Al32>(case, acc),
    }
}

pub fn main() {
    let args = Args::parse();
    engine::install_hook();
    engine::maybe_replay_many::<Case>(PROP, &args, exec);
    let started = std::time::Instant::now();
    if let Some(p) = &args.replay {
        let case: Case = engine::load_replay(p);
        let mut acc = Acc::new();
        let r = engine::catch(|| exec(&case, &mut acc)).unwrap_or_else(|c| Err(format!("panic: {}", c.msg)));
        engine::finish_replay(PROP, p, r);
    }
    let mut g = vec![];
    let mut x = args.seed.wrapping_mul(0x9E37_79B9_7F4A_7C15) | 1;
    for kind in [Kind::U8, Kind::U32, Kind::Pair, Kind::Unit, Kind::U64, Kind::Big72, Kind::Al32] {
        for &n in LENS {
            let ls: Vec<usize> = if n <= 64 { (0..=4 * n + 3).collect() } else { vec![0, 1, n - 1, n, n + 1, 2 * n - 1, 2 * n, 2 * n + 1, 4 * n + 3] };
            for l in ls {
                for mutable in [false, true] {
                    x ^= x << 13;
                    x ^= x >> 7;
                    x ^= x << 17;
                    g.push(Case { n, l, kind, mutable, salt: (x >> 24) as u32 & 0xfffff });
                }
            }
        }
    }
    for &n in LENS {
        if n == 0 {
            continue;
        }
        for l in [isize::MAX as usize, isize::MAX as usize + 1, usize::MAX, usize::MAX - 1, (1usize << 63) + n, n * (1 << 48) + 1, (n << 32) + n - 1, (1 << 48) + (n << 16)] {
            for mutable in [false, true] {
                g.push(Case { n, l, kind: Kind::Unit, mutable, salt: 0 });
            }
        }
    }
    if args.dump.is_some() {
        // cases dumped for the Miri stage: small, mostly the mutable forms (their write-through is what provenance mistakes break)
        g.retain(|c| [1usize, 2, 3, 5, 8].contains(&c.n) && c.l <= 2 * c.n + 1 && matches!(c.kind, Kind::U8 | Kind::U32 | Kind::U64 | Kind::Al32) && (c.mutable || c.l % 2 == 0));
    }
    let acc = engine::parallel(&args, PROP, |w, workers, acc| {
        for (i, c) in g.iter().enumerate() {
            if i % workers == w {
                acc.run(c, exec);
            }
        }
    });
    engine::finish(
        &args,
        started,
        acc,
        Report {
            prop: PROP,
            level: "exploration",
            rule: "run-time half: case = (N in {0,1,2,3,4,5,7,8,16,17,31,32,33,63,64,100,255,256,1000,1024,2048,4096}, every L in 0..=4N+3 for N <= 64 and nine boundary L beyond (for () also eight lengths no allocation could have: isize::MAX, isize::MAX+1, usize::MAX-1, usize::MAX, 2^63+N, N*2^48+1, N*2^32+N-1, 2^48+N*2^16), element kind u8/u32/(u8,u16)/()/u64/72-byte [u64;9]/32-byte-aligned, shared or mutable). \
                   Oracle: std's chunks_exact(N) + remainder(): chunk count floor(L/N), chunk i at the source address + i*N elements, remainder at + floor(L/N)*N with length L mod N; slice_from_chunks is the inverse (same address, floor(L/N)*N elements); from_chunks / into_chunks (and _mut) return the same address and count; writes through the mutable forms land in the source; N = 0: empty -> two empty results, non-empty -> panic. Only addresses and lengths are inspected before results are known to be in bounds. \
                   non-trivial = L not a multiple of N, or N = 0, or at least two chunks; distinct = distinct case tuples",
            exhaustive: false,
            assumptions: vec![],
            extra: serde_json::json!({}),
        },
    );
}
