//! C04 - a panic in caller-supplied code never loses or double-drops an element.
//! Crash points are enumerated: a clean run counts the K callback invocations, then the case is re-run with
//! an injected panic at every call index k in 0..K.

use generic_array::functional::FunctionalSequence;
use generic_array::internals::{ArrayBuilder, ArrayConsumer, IntrusiveArrayBuilder};
use generic_array::sequence::GenericSequence;
#[allow(unused_imports)]
use generic_array::functional::MappedGenericSequence;
use generic_array::{ArrayLength, GenericArray};
use harness::engine::{self, Acc, Args, Report};
use harness::registry::{self, pk, Elem, Peek, Tracked, TrackedZst};
use harness::script::{Hint, ScriptIter};
use harness::len_match;
use serde::{Deserialize, Serialize};

pub const PROP: &str = "C04";

#[derive(Clone, Copy, Debug, Serialize, Deserialize, PartialEq, Eq, Hash)]
pub enum K3 {
    Tracked,
    Zst,
    U32,
}

#[derive(Clone, Copy, Debug, Serialize, Deserialize, PartialEq, Eq, Hash)]
pub enum Op {
    /// 0 owned, 1 through &GenericArray, 2 through &mut GenericArray, 3 boxed
    Generate(u8),
    /// 0 owned, 1 &, 2 &mut, 3 boxed
    Map(u8),
    /// 0..=8 = (lhs form, rhs form) in {owned, &, &mut}^2 (lhs*3+rhs), 9 = boxed x boxed; element kinds of lhs and rhs
    Zip(u8, K3, K3),
    /// the same with the closure's output element kind as a third dimension (U32 = plain, Zst here = the unit type `()`)
    ZipOut(u8, K3, K3, K3),
    /// `dst.clone_from(&src)` for arrays (0), boxed arrays (1): T::clone panics at call k
    CloneFromArr(u8),
    /// `dst.clone_from(&src)` for by-value iterators: source at (front, back), destination at (front2, back2)
    CloneFromIter(usize, usize, usize, usize),
    Fold(u8),
    IterFold(usize, usize),
    IterRFold(usize, usize),
    IterMapCollect(usize, usize),
    /// provided iterator methods an implementation may override, each with a closure that can panic:
    /// 0 for_each, 1 find, 2 position, 3 all, 4 rev().for_each, 5 for-loop, 6 skip(1).for_each, 7 map().last(), 8 max_by_key, 9 rposition
    IterAdapt(u8, usize, usize),
    CloneArr,
    CloneBox,
    CloneIter(usize, usize),
    Default,
    DefaultBoxed,
    /// target 0 try_from_iter, 1 from_iter/collect, 2 try_boxed_from_iter, 3 boxed collect; produced count; hint
    Collect(u8, usize, Hint),
    /// no fault: builders / consumer abandoned at position p
    BuilderAt(usize),
    IntrusiveAt(usize),
    ConsumerAt(usize),
}

#[derive(Clone, Debug, Serialize, Deserialize, PartialEq, Eq, Hash)]
pub struct Case {
    pub op: Op,
    pub n: usize,
    pub zst: bool,
    /// call index at which the injected panic fires; None = clean run
    pub k: Option<u64>,
}

fn mix2(a: u32, b: u32) -> u32 {
    a.wrapping_mul(31).wrapping_add(b.wrapping_mul(17)).wrapping_add(3) & 0x3fff_ffff
}

struct Outcome {
    calls: u64,
    fired: bool,
}

/// A caller-defined sequence type (the trait is public, `unsafe` to implement: "lengths must match, and element drop on panic
/// must be handled" - a `Vec` of exactly N items does both). Its by-value iterator is caller code: every `next()` is a tick, so
/// the injected panic can fire *inside an operand's iterator* while zip holds moved-out elements of the other operand.
pub struct UserSeq<T, N: ArrayLength>(Vec<T>, core::marker::PhantomData<N>);
pub struct UserIter<T>(std::vec::IntoIter<T>);
impl<T, N: ArrayLength> From<GenericArray<T, N>> for UserSeq<T, N> {
    fn from(a: GenericArray<T, N>) -> Self {
        UserSeq(a.into_iter().collect(), core::marker::PhantomData)
    }
}
impl<T> Iterator for UserIter<T> {
    type Item = T;
    fn next(&mut self) -> Option<T> {
        registry::tick("next() of a caller-defined sequence operand");
        self.0.next()
    }
}
impl<T, N: ArrayLength> IntoIterator for UserSeq<T, N> {
    type Item = T;
    type IntoIter = UserIter<T>;
    fn into_iter(self) -> UserIter<T> {
        UserIter(self.0.into_iter())
    }
}
unsafe impl<T, N: ArrayLength> GenericSequence<T> for UserSeq<T, N> {
    type Length = N;
    type Sequence = GenericArray<T, N>;
    fn generate<F: FnMut(usize) -> T>(f: F) -> GenericArray<T, N> {
        GenericArray::generate(f)
    }
}
impl<T, U, N: ArrayLength> MappedGenericSequence<T, U> for UserSeq<T, N> {
    type Mapped = GenericArray<U, N>;
}
impl<T, N: ArrayLength> FunctionalSequence<T> for UserSeq<T, N> {}

fn zip_run<A: Elem + Peek, B: Elem + Peek, N: ArrayLength>(form: u8, k: Option<u64>) {
    zip_run_out::<A, B, Tracked, N>(form, k)
}

fn zip_run_out<A: Elem + Peek, B: Elem + Peek, O: Elem, N: ArrayLength>(form: u8, k: Option<u64>) {
    let mut a: GenericArray<A, N> = GenericArray::generate(|i| A::mk(100 + i as u32));
    let mut b: GenericArray<B, N> = GenericArray::generate(|i| B::mk(200 + i as u32));
    if let Some(k) = k {
        registry::panic_at_call(k);
    }
    macro_rules! z {
        ($l:expr, $r:expr) => {
            drop($l.zip($r, |l, r| {
                registry::tick("zip closure");
                let v = mix2(pk(&l), pk(&r));
                drop((l, r));
                O::mk(v)
            }))
        };
    }
    macro_rules! iz {
        ($r:expr, $l:expr) => {
            drop($r.inverted_zip($l, |l, r| {
                registry::tick("inverted_zip closure");
                let v = mix2(pk(&l), pk(&r));
                drop((l, r));
                O::mk(v)
            }))
        };
    }
    macro_rules! iz2 {
        ($r:expr, $l:expr) => {
            drop($r.inverted_zip2($l, |l, r| {
                registry::tick("inverted_zip2 closure");
                let v = mix2(pk(&l), pk(&r));
                drop((l, r));
                O::mk(v)
            }))
        };
    }
    match form {
        0 => z!(a, b),
        1 => z!(a, &b),
        2 => z!(a, &mut b),
        3 => z!(&a, b),
        4 => z!(&a, &b),
        5 => z!(&a, &mut b),
        6 => z!(&mut a, b),
        7 => z!(&mut a, &b),
        8 => z!(&mut a, &mut b),
        9 => z!(Box::new(a), Box::new(b)),
        // direct calls of the (doc-hidden, public) right-hand-side entry points of zip
        10 => iz!(b, a),
        11 => iz!(&b, a),
        12 => iz!(&mut b, a),
        13 => iz!(Box::new(b), a),
        14 => iz2!(b, &a),
        15 => iz2!(b, &mut a),
        16 => iz2!(&b, &a),
        18 => iz2!(b, a),
        19 => iz2!(&b, a),
        17 => iz2!(Box::new(b), Box::new(a)),
        20 => iz2!(&mut b, a),
        // a caller-defined sequence type as an operand: zip runs its iterator between moving elements out of the other operand
        21 => z!(UserSeq::<A, N>::from(a), b),
        22 => z!(UserSeq::<A, N>::from(a), &b),
        23 => z!(UserSeq::<A, N>::from(a), &mut b),
        24 => z!(a, UserSeq::<B, N>::from(b)),
        25 => z!(&a, UserSeq::<B, N>::from(b)),
        26 => z!(&mut a, UserSeq::<B, N>::from(b)),
        _ => z!(UserSeq::<A, N>::from(a), UserSeq::<B, N>::from(b)),
    }
}

fn run_op<T: Elem + Peek + Clone + Default, N: ArrayLength>(case: &Case) {
    let n = N::USIZE;
    let k = case.k;
    let arm = || {
        if let Some(k) = k {
            registry::panic_at_call(k);
        }
    };
    let gen = |i: usize| {
        registry::tick("generate closure");
        T::mk(i as u32)
    };
    match case.op {
        Op::Generate(f) => {
            arm();
            match f {
                0 => drop(GenericArray::<T, N>::generate(gen)),
                1 => drop(<&GenericArray<T, N> as GenericSequence<T>>::generate(gen)),
                2 => drop(<&mut GenericArray<T, N> as GenericSequence<T>>::generate(gen)),
                _ => drop(Box::<GenericArray<T, N>>::generate(gen)),
            }
        }
        Op::Map(f) => {
            let mut a: GenericArray<T, N> = GenericArray::generate(|i| T::mk(100 + i as u32));
            arm();
            match f {
                0 => drop(a.map(|x| {
                    registry::tick("map closure");
                    let v = x.get();
                    drop(x);
                    T::mk(v + 1)
                })),
                1 => drop((&a).map(|x: &T| {
                    registry::tick("map closure");
                    T::mk(x.get() + 1)
                })),
                2 => drop((&mut a).map(|x: &mut T| {
                    registry::tick("map closure");
                    T::mk(x.get() + 1)
                })),
                _ => drop(Box::new(a).map(|x| {
                    registry::tick("map closure");
                    let v = x.get();
                    drop(x);
                    T::mk(v + 1)
                })),
            }
        }
        Op::Zip(..) | Op::ZipOut(..) => unreachable!(),
        Op::Fold(f) => {
            let mut a: GenericArray<T, N> = GenericArray::generate(|i| T::mk(100 + i as u32));
            arm();
            let acc0 = T::mk(7);
            let _r: T = match f {
                0 => a.fold(acc0, |acc, x| {
                    registry::tick("fold closure");
                    let v = mix2(acc.get(), x.get());
                    drop((acc, x));
                    T::mk(v)
                }),
                1 => (&a).fold(acc0, |acc, x: &T| {
                    registry::tick("fold closure");
                    T::mk(mix2(acc.get(), x.get()))
                }),
                2 => (&mut a).fold(acc0, |acc, x: &mut T| {
                    registry::tick("fold closure");
                    T::mk(mix2(acc.get(), x.get()))
                }),
                _ => Box::new(a).fold(acc0, |acc, x| {
                    registry::tick("fold closure");
                    T::mk(mix2(acc.get(), x.get()))
                }),
            };
        }
        Op::IterFold(front, back) | Op::IterRFold(front, back) | Op::IterMapCollect(front, back) | Op::CloneIter(front, back) | Op::IterAdapt(_, front, back) => {
            let a: GenericArray<T, N> = GenericArray::generate(|i| T::mk(100 + i as u32));
            let mut it = a.into_iter();
            let mut held = vec![];
            for _ in 0..front.min(n) {
                held.extend(it.next());
            }
            for _ in 0..back.min(n - front.min(n)) {
                held.extend(it.next_back());
            }
            arm();
            match case.op {
                Op::IterFold(..) => {
                    let _r = it.fold(T::mk(7), |acc, x| {
                        registry::tick("iter fold closure");
                        T::mk(mix2(acc.get(), x.get()))
                    });
                }
                Op::IterRFold(..) => {
                    let _r = it.rfold(T::mk(7), |acc, x| {
                        registry::tick("iter rfold closure");
                        T::mk(mix2(acc.get(), x.get()))
                    });
                }
                Op::IterAdapt(which, ..) => {
                    let mut kept: Vec<T> = vec![];
                    match which % 10 {
                        0 => it.for_each(|x| {
                            registry::tick("for_each closure");
                            kept.push(x)
                        }),
                        1 => {
                            let f = it.find(|x| {
                                registry::tick("find predicate");
                                x.get() == u32::MAX
                            });
                            kept.extend(f);
                        }
                        2 => {
                            let _ = it.position(|x| {
                                registry::tick("position predicate");
                                let hit = x.get() == u32::MAX;
                                kept.push(x);
                                hit
                            });
                        }
                        3 => {
                            let _ = it.all(|x| {
                                registry::tick("all predicate");
                                drop(x);
                                true
                            });
                        }
                        4 => it.rev().for_each(|x| {
                            registry::tick("rev for_each closure");
                            kept.push(x)
                        }),
                        5 => {
                            for x in it {
                                registry::tick("for loop body");
                                kept.push(x);
                            }
                        }
                        6 => it.skip(1).for_each(|x| {
                            registry::tick("skip for_each closure");
                            drop(x)
                        }),
                        7 => {
                            let l = it
                                .map(|x| {
                                    registry::tick("map closure");
                                    x
                                })
                                .last();
                            kept.extend(l);
                        }
                        8 => {
                            let m = it.max_by_key(|x| {
                                registry::tick("max_by_key closure");
                                x.get()
                            });
                            kept.extend(m);
                        }
                        _ => {
                            let _ = it.rposition(|x| {
                                registry::tick("rposition predicate");
                                drop(x);
                                false
                            });
                        }
                    }
                    drop(kept);
                }
                Op::IterMapCollect(..) => {
                    let _v: Vec<T> = it
                        .map(|x| {
                            registry::tick("iter map closure");
                            x
                        })
                        .collect();
                }
                _ => {
                    let c = it.clone();
                    drop(it);
                    drop(c);
                }
            }
            drop(held);
        }
        Op::CloneFromArr(f) => {
            let src: GenericArray<T, N> = GenericArray::generate(|i| T::mk(100 + i as u32));
            let mut dst: GenericArray<T, N> = GenericArray::generate(|i| T::mk(300 + i as u32));
            if f == 0 {
                arm();
                dst.clone_from(&src);
                drop(dst);
                drop(src);
            } else {
                let (src, mut dst) = (Box::new(src), Box::new(dst));
                arm();
                dst.clone_from(&src);
                drop(src);
                drop(dst);
            }
        }
        Op::CloneFromIter(front, back, f2, b2) => {
            let mut held = vec![];
            let mut mk = |base: u32, f: usize, b: usize, held: &mut Vec<T>| {
                let a: GenericArray<T, N> = GenericArray::generate(|i| T::mk(base + i as u32));
                let mut it = a.into_iter();
                for _ in 0..f.min(n) {
                    held.extend(it.next());
                }
                for _ in 0..b.min(n - f.min(n)) {
                    held.extend(it.next_back());
                }
                it
            };
            let src = mk(100, front, back, &mut held);
            let mut dst = mk(300, f2, b2, &mut held);
            arm();
            dst.clone_from(&src);
            drop(src);
            drop(dst);
            drop(held);
        }
        Op::CloneArr => {
            let a: GenericArray<T, N> = GenericArray::generate(|i| T::mk(100 + i as u32));
            arm();
            let c = a.clone();
            drop(a);
            drop(c);
        }
        Op::CloneBox => {
            let a: Box<GenericArray<T, N>> = Box::new(GenericArray::generate(|i| T::mk(100 + i as u32)));
            arm();
            let c = a.clone();
            drop(c);
            drop(a);
        }
        Op::Default => {
            arm();
            drop(GenericArray::<T, N>::default());
        }
        Op::DefaultBoxed => {
            arm();
            drop(GenericArray::<T, N>::default_boxed());
        }
        Op::Collect(target, c, hint) => {
            let items: Vec<T> = (0..c).map(|i| T::mk(100 + i as u32)).collect();
            let (src, _probe) = ScriptIter::new(items, vec![], hint, true);
            arm();
            match target {
                0 => drop(GenericArray::<T, N>::try_from_iter(src)),
                1 => {
                    let r = engine::catch(|| src.collect::<GenericArray<T, N>>());
                    match r {
                        Ok(a) => drop(a),
                        Err(c) if c.injected => std::panic::panic_any(registry::Injected("propagated")),
                        Err(_) => {} // the documented length panic
                    }
                }
                2 => drop(GenericArray::<T, N>::try_boxed_from_iter(src)),
                _ => {
                    let r = engine::catch(|| src.collect::<Box<GenericArray<T, N>>>());
                    match r {
                        Ok(a) => drop(a),
                        Err(c) if c.injected => std::panic::panic_any(registry::Injected("propagated")),
                        Err(_) => {}
                    }
                }
            }
        }
        Op::BuilderAt(p) | Op::IntrusiveAt(p) => {
            let p = p.min(n);
            let items: Vec<T> = (0..p).map(|i| T::mk(700 + i as u32)).collect();
            unsafe {
                if matches!(case.op, Op::IntrusiveAt(_)) {
                    let mut storage = GenericArray::<T, N>::uninit();
                    let mut b = IntrusiveArrayBuilder::new(&mut storage);
                    {
                        let (slots, pos) = b.iter_position();
                        for (slot, x) in slots.zip(items) {
                            slot.write(x);
                            *pos += 1;
                        }
                    }
                    if p == n {
                        b.finish();
                        drop(IntrusiveArrayBuilder::array_assume_init(storage));
                    } else {
                        drop(b);
                    }
                } else {
                    let mut b = ArrayBuilder::<T, N>::new();
                    {
                        let (slots, pos) = b.iter_position();
                        for (slot, x) in slots.zip(items) {
                            slot.write(x);
                            *pos += 1;
                        }
                    }
                    if p == n {
                        drop(b.assume_init());
                    } else {
                        drop(b);
                    }
                }
            }
        }
        Op::ConsumerAt(p) => {
            let p = p.min(n);
            let a: GenericArray<T, N> = GenericArray::generate(|i| T::mk(100 + i as u32));
            let mut taken = vec![];
            unsafe {
                let mut c = ArrayConsumer::new(a);
                {
                    let (it, pos) = c.iter_position();
                    for src in it.take(p) {
                        taken.push(core::ptr::read(src));
                        *pos += 1;
                    }
                }
                drop(c);
            }
            for x in &taken {
                x.get();
            }
        }
    }
}

fn run_typed<N: ArrayLength>(case: &Case) {
    match case.op {
        Op::Zip(form, lk, rk) => match (lk, rk) {
            (K3::Tracked, K3::Tracked) => zip_run::<Tracked, Tracked, N>(form, case.k),
            (K3::Tracked, K3::U32) => zip_run::<Tracked, u32, N>(form, case.k),
            (K3::U32, K3::Tracked) => zip_run::<u32, Tracked, N>(form, case.k),
            (K3::Tracked, K3::Zst) => zip_run::<Tracked, TrackedZst, N>(form, case.k),
            (K3::Zst, K3::Tracked) => zip_run::<TrackedZst, Tracked, N>(form, case.k),
            _ => zip_run::<u32, u32, N>(form, case.k),
        },
        Op::ZipOut(form, lk, rk, ok) => match (lk, rk, ok) {
            (K3::Tracked, K3::U32, K3::U32) => zip_run_out::<Tracked, u32, u32, N>(form, case.k),
            (K3::Tracked, K3::U32, _) => zip_run_out::<Tracked, u32, (), N>(form, case.k),
            (K3::U32, K3::Tracked, K3::U32) => zip_run_out::<u32, Tracked, u32, N>(form, case.k),
            (K3::U32, K3::Tracked, _) => zip_run_out::<u32, Tracked, (), N>(form, case.k),
            (K3::Tracked, K3::Tracked, K3::U32) => zip_run_out::<Tracked, Tracked, u32, N>(form, case.k),
            (K3::Tracked, K3::Tracked, _) => zip_run_out::<Tracked, Tracked, (), N>(form, case.k),
            (K3::Tracked, K3::Zst, _) => zip_run_out::<Tracked, TrackedZst, (), N>(form, case.k),
            _ => zip_run_out::<TrackedZst, Tracked, u32, N>(form, case.k),
        },
        _ => {
            if case.zst {
                run_op::<TrackedZst, N>(case)
            } else {
                run_op::<Tracked, N>(case)
            }
        }
    }
}

fn run(case: &Case) -> Result<Outcome, String> {
    registry::reset();
    let r = engine::catch(|| match case.op {
        Op::Zip(..) => len_match!(case.n, N, run_typed::<N>(case), [0: U0, 1: U1, 2: U2, 3: U3, 4: U4, 5: U5, 6: U6, 8: U8, 16: U16, 33: U33]),
        Op::ZipOut(..) => len_match!(case.n, N, run_typed::<N>(case), [0: U0, 1: U1, 2: U2, 3: U3, 5: U5, 8: U8, 33: U33]),
        _ => len_match!(case.n, N, run_typed::<N>(case), [0: U0, 1: U1, 2: U2, 3: U3, 4: U4, 5: U5, 6: U6, 7: U7, 8: U8, 12: U12, 16: U16, 33: U33, 64: U64, 256: U256, 1024: U1024]),
    });
    let fired = registry::call_panic_fired();
    let calls = registry::calls();
    registry::clear_call_panic();
    match (&r, case.k, fired) {
        (Ok(()), _, false) => {}
        (Err(c), Some(_), true) if c.injected => {}
        (Ok(()), Some(k), true) => return Err(format!("the panic injected at call {k} did not propagate out of the operation")),
        (Err(c), _, _) => return Err(format!("unexpected panic: {}", c.msg)),
        _ => {}
    }
    engine::end_case(false)?;
    Ok(Outcome { calls, fired })
}

pub fn exec(case: &Case, acc: &mut Acc) -> Result<(), String> {
    let o = run(case)?;
    let nontrivial = o.fired && case.k.map(|k| k > 0 && k + 1 < total_calls(case).unwrap_or(0)).unwrap_or(false);
    acc.count(nontrivial, case);
    if o.fired {
        acc.class("injected_panic_fired");
    } else if case.k.is_none() {
        acc.class("clean_runs");
    }
    Ok(())
}

thread_local! {
    static LAST_K: std::cell::Cell<Option<(u64, u64)>> = const { std::cell::Cell::new(None) };
}

fn key_of(case: &Case) -> u64 {
    engine::hash_of(&(case.op, case.n, case.zst))
}

fn total_calls(case: &Case) -> Option<u64> {
    LAST_K.with(|c| c.get()).filter(|(k, _)| *k == key_of(case)).map(|(_, v)| v)
}

/// the operation instances (without crash point)
fn instances(thorough: bool) -> Vec<Case> {
    let mut out = vec![];
    let _ = thorough;
    let lens: Vec<usize> = vec![0, 1, 2, 3, 4, 5, 6, 7, 8, 12, 16, 33, 64, 256, 1024];
    let ziplens = [0usize, 1, 2, 3, 4, 5, 6, 8, 16, 33];
    for &n in &lens {
        for zst in [false, true] {
            let mut ops = vec![];
            for f in 0..4 {
                ops.push(Op::Generate(f));
                ops.push(Op::Map(f));
                ops.push(Op::Fold(f));
            }
            ops.extend([Op::CloneArr, Op::CloneBox, Op::Default, Op::DefaultBoxed, Op::CloneFromArr(0), Op::CloneFromArr(1)]);
            let positions: Vec<(usize, usize)> = if n <= 8 {
                (0..=n).flat_map(|f| (0..=(n - f)).map(move |b| (f, b))).collect()
            } else {
                vec![(0, 0), (1, 0), (0, 1), (n / 3, n / 3), (n - 1, 0), (0, n - 1), (n / 2, n - n / 2)]
            };
            for (f, b) in positions {
                ops.push(Op::IterFold(f, b));
                ops.push(Op::IterRFold(f, b));
                ops.push(Op::CloneIter(f, b));
                if f + b <= 2 {
                    ops.push(Op::IterMapCollect(f, b));
                }
                if n <= 8 || (f + b) % 3 == 0 {
                    for w in 0..10u8 {
                        ops.push(Op::IterAdapt(w, f, b));
                    }
                }
                // clone_from into destinations in a few positions (fresh, front-consumed, back-consumed, exhausted)
                for (f2, b2) in [(0usize, 0usize), (1, 0), (0, 1), (n / 2, 0), (n, 0), (1, 1)] {
                    if n <= 8 || (f + b) % 2 == 0 {
                        ops.push(Op::CloneFromIter(f, b, f2, b2));
                    }
                }
            }
            for target in 0..4u8 {
                for c in [n.saturating_sub(1), n, n + 1] {
                    for hint in [Hint::Exact, Hint::Unknown, Hint::Loose] {
                        ops.push(Op::Collect(target, c, hint));
                    }
                }
            }
            if !zst || n <= 8 {
                for p in (0..=n).filter(|p| n <= 12 || [0, 1, n / 2, n - 1, n].contains(p)) {
                    ops.push(Op::BuilderAt(p));
                    ops.push(Op::IntrusiveAt(p));
                    ops.push(Op::ConsumerAt(p));
                }
            }
            for op in ops {
                out.push(Case { op, n, zst, k: None });
            }
        }
        if ziplens.contains(&n) {
            for form in 0..28u8 {
                for (lk, rk) in [(K3::Tracked, K3::Tracked), (K3::Tracked, K3::U32), (K3::U32, K3::Tracked), (K3::Tracked, K3::Zst), (K3::Zst, K3::Tracked), (K3::U32, K3::U32)] {
                    out.push(Case { op: Op::Zip(form, lk, rk), n, zst: false, k: None });
                }
                if [0usize, 1, 2, 3, 5, 8, 33].contains(&n) {
                    for (lk, rk, ok) in [(K3::Tracked, K3::U32, K3::U32), (K3::Tracked, K3::U32, K3::Zst), (K3::U32, K3::Tracked, K3::U32), (K3::U32, K3::Tracked, K3::Zst),
                                         (K3::Tracked, K3::Tracked, K3::U32), (K3::Tracked, K3::Tracked, K3::Zst), (K3::Tracked, K3::Zst, K3::Zst), (K3::Zst, K3::Tracked, K3::U32)] {
                        out.push(Case { op: Op::ZipOut(form, lk, rk, ok), n, zst: false, k: None });
                    }
                }
            }
        }
    }
    out
}

pub fn main() {
    let args = Args::parse();
    engine::install_hook();
    engine::maybe_replay_many::<Case>(PROP, &args, |c, _| run(c).map(|_| ()));
    let started = std::time::Instant::now();
    if let Some(p) = &args.replay {
        let case: Case = engine::load_replay(p);
        let r = engine::catch(|| run(&case).map(|_| ())).unwrap_or_else(|c| Err(format!("panic: {}", c.msg)));
        engine::finish_replay(PROP, p, r);
    }
    let inst = instances(args.thorough());
    let thorough = args.thorough();
    let seed = args.seed;
    let acc = engine::parallel(&args, PROP, |w, workers, acc| {
        for (i, c) in inst.iter().enumerate() {
            if i % workers != w {
                continue;
            }
            // clean run: counts the callback invocations K
            let total = match run(c) {
                Ok(o) => o.calls,
                Err(m) => {
                    acc.sample(c);
                    acc.fail(c, m);
                    continue;
                }
            };
            LAST_K.with(|l| l.set(Some((key_of(c), total))));
            acc.run(c, exec);
            acc.class("operation_instances");
            let ks: Vec<u64> = if total <= 80 || thorough {
                (0..total).collect()
            } else {
                // large N: first, last, middle and a deterministic spread
                let mut v = vec![0, 1, total / 2, total - 2, total - 1];
                let mut x = seed.wrapping_add(i as u64).wrapping_mul(0x9E37_79B9_7F4A_7C15) | 1;
                for _ in 0..12 {
                    x ^= x << 13;
                    x ^= x >> 7;
                    x ^= x << 17;
                    v.push(x % total);
                }
                v.sort();
                v.dedup();
                v
            };
            for k in ks {
                let mut ck = c.clone();
                ck.k = Some(k);
                acc.run(&ck, exec);
            }
        }
    });
    engine::finish(
        &args,
        started,
        acc,
        Report {
            prop: PROP,
            level: "fault_enumeration",
            rule: "operation instance = (operation and receiver/argument form, N, element kind); for each instance a clean run counts the K invocations of caller code (closure, Clone::clone, Default::default, source next()), then the instance is re-run once per crash point k in 0..K with a panic injected at exactly that invocation (every k for K <= 80, else first/last/middle + a seeded spread). \
                   Operations: generate x4 forms, map x4, zip x10 forms plus 11 direct inverted_zip / inverted_zip2 call forms (incl. an owned left operand) plus 7 forms in which one or both operands are a caller-defined GenericSequence type whose by-value iterator panics in next() x 6 element-kind pairs (drop-tracked / plain / zero-sized, selecting the needs_drop branches) with a drop-tracked output, and x 8 (lhs, rhs, output) kind triples with a plain or unit output, fold x4, clone_from for arrays, boxed arrays and by-value iterators (source and destination in several positions), iterator fold/rfold/map-collect/Clone and ten provided adaptor methods with closures (for_each, find, position, all, rev, for-loop, skip, map().last(), max_by_key, rposition) from every (front, back) for N<=8, Clone for GenericArray and Box<GenericArray>, Default, default_boxed, collect x4 targets x 3 produced counts x 3 hints from a scripted source that panics in next(), and the internals builders/consumer abandoned at every position. \
                   Oracle: the panic propagates with the injected payload, and once every local is gone each element ever created (inputs, partial outputs, values handed to the closure, clones) has been dropped exactly once, none as garbage. \
                   non-trivial = the injected panic fired with 0 < k < K-1 (a built prefix and an unconsumed suffix both exist); distinct = distinct (instance, k)",
            exhaustive: false,
            assumptions: vec!["single fault per run, never during unwinding".into(), "N > 1024 not exercised".into()],
            extra: serde_json::json!({"instances": inst.len()}),
        },
    );
}
