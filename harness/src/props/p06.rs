//! C06 - by-value iterator behaves as a double-ended, exact-size, fused queue.
//! Oracle: a VecDeque model driven by the same operation sequence.

use generic_array::sequence::GenericSequence;
use generic_array::{ArrayLength, GenericArray, GenericArrayIter};
use harness::engine::{self, Acc, Args, Report};
use harness::registry::{self, Elem, Tracked, TrackedBig, TrackedZst};
use harness::with_mid;
use proptest::prelude::*;
use serde::{Deserialize, Serialize};
use std::collections::VecDeque;
use std::fmt::Debug;

pub const PROP: &str = "C06";

#[derive(Clone, Copy, Debug, Serialize, Deserialize, PartialEq, Eq, Hash)]
pub enum Kind {
    Tracked,
    U32,
    Zst,
    Big,
    /// zero-sized without a destructor (pointer ranges over such elements are empty whatever their count)
    Uz,
    /// no drop glue, but a hand-written Clone that is observable (counts its calls)
    Gen,
}

/// What to do with a clone of the iterator
#[derive(Clone, Copy, Debug, Serialize, Deserialize, PartialEq, Eq, Hash)]
pub enum Use {
    Drop,
    Collect,
    CollectRev,
    Fold,
    RFold,
    Count,
    Last,
    NthThenDrop(u8),
    NthBackThenDrop(u8),
    /// provided Iterator / DoubleEndedIterator methods an implementation may override: argument = selector (see `arg`)
    /// 0 for_each, 1 find, 2 rfind, 3 position, 4 rposition, 5 skip(a).next(), 6 step_by(a+1), 7 take(a), 8 rev().nth(a),
    /// 9 any/all, 10 map-sum, 11 max/min by value, 12 zip with itself reversed, 13 by_ref().take(a) then the rest
    Adaptor(u8, u8),
}

#[derive(Clone, Copy, Debug, Serialize, Deserialize, PartialEq, Eq, Hash)]
pub enum Op {
    Next,
    NextBack,
    /// argument selector, resolved against the current length (see `arg`)
    Nth(u8),
    NthBack(u8),
    Len,
    AsSlice,
    /// write a fresh value through as_mut_slice at selector position
    Write(u16, u32),
    /// clone and use the clone
    Clone(Use),
    Debug,
    DebugAlt,
    /// `other.clone_from(&it)` where `other` is a second iterator over fresh elements from which `front` / `back` elements
    /// (255 = all) have already been taken: `other` must then yield exactly what `it` still holds, `it` is undisturbed
    CloneInto(u8, u8),
    /// `it.clone_from(&other)`: `it` must then yield exactly what `other` still holds
    CloneFromOther(u8, u8),
}

#[derive(Clone, Copy, Debug, Serialize, Deserialize, PartialEq, Eq, Hash)]
pub enum End {
    Drop,
    /// bit pattern choosing front/back for each pull
    Drain(u32),
    Fold,
    RFold,
    Count,
    Last,
}

#[derive(Clone, Debug, Serialize, Deserialize, PartialEq, Eq, Hash)]
pub struct Case {
    pub n: usize,
    pub kind: Kind,
    pub ops: Vec<Op>,
    pub end: End,
}

/// selector -> argument: 0..=5 literal, then len-1, len, len+1, len+2, usize::MAX
fn arg(sel: u8, len: usize) -> usize {
    match sel {
        0..=5 => sel as usize,
        6 => len.saturating_sub(1),
        7 => len,
        8 => len + 1,
        9 => len + 2,
        10 => usize::MAX,
        s => (s as usize - 11) + 6,
    }
}

#[derive(Clone, Debug, PartialEq)]
struct M {
    val: u32,
    id: Option<u32>,
}

/// Zero-sized, no drop glue; prints as `0` so that Debug output can be compared with the model like every other kind
#[derive(Clone, PartialEq)]
pub struct Uz;
impl Debug for Uz {
    fn fmt(&self, f: &mut std::fmt::Formatter<'_>) -> std::fmt::Result {
        write!(f, "0")
    }
}
impl Elem for Uz {
    const KIND: &'static str = "zst_no_drop_glue";
    const NEEDS_DROP: bool = false;
    fn mk(_: u32) -> Self {
        Uz
    }
    fn get(&self) -> u32 {
        0
    }
    fn norm(_: u32) -> u32 {
        0
    }
}
impl IdOf for Uz {
    fn id_of(&self) -> Option<u32> {
        None
    }
}

thread_local! { static GEN_CLONES: std::cell::Cell<u64> = const { std::cell::Cell::new(0) }; }
thread_local! { static GEN_ORDER: std::cell::RefCell<Vec<u32>> = const { std::cell::RefCell::new(vec![]) }; }
/// No drop glue; `Clone` is hand-written, counts its calls globally and - through interior mutability - in the value it is
/// called on (a clone taken from a bitwise duplicate instead of the element itself leaves that counter untouched)
#[derive(PartialEq)]
pub struct Gen(u32, std::cell::Cell<u32>);
impl Clone for Gen {
    fn clone(&self) -> Gen {
        GEN_CLONES.with(|c| c.set(c.get() + 1));
        GEN_ORDER.with(|o| {
            let mut o = o.borrow_mut();
            if o.len() < 8192 {
                o.push(self.0)
            }
        });
        self.1.set(self.1.get() + 1);
        Gen(self.0, std::cell::Cell::new(0))
    }
}
impl Debug for Gen {
    fn fmt(&self, f: &mut std::fmt::Formatter<'_>) -> std::fmt::Result {
        write!(f, "{}", self.0)
    }
}
impl Elem for Gen {
    const KIND: &'static str = "no_drop_glue_observable_clone";
    const NEEDS_DROP: bool = false;
    fn mk(v: u32) -> Self {
        Gen(v, std::cell::Cell::new(0))
    }
    fn get(&self) -> u32 {
        self.0
    }
}
impl IdOf for Gen {
    fn id_of(&self) -> Option<u32> {
        None
    }
    fn clone_calls() -> Option<u64> {
        Some(GEN_CLONES.with(|c| c.get()))
    }
    fn cloned_from(&self) -> Option<u32> {
        Some(self.1.get())
    }
    fn take_clone_order() -> Option<Vec<u32>> {
        Some(GEN_ORDER.with(|o| std::mem::take(&mut *o.borrow_mut())))
    }
}

trait IdOf {
    fn id_of(&self) -> Option<u32>;
    /// number of `T::clone` calls made so far on this thread, for kinds that can tell
    fn clone_calls() -> Option<u64> {
        None
    }
    /// how often `clone` was called on this very value, for kinds that record it in the value
    fn cloned_from(&self) -> Option<u32> {
        None
    }
    /// the values `T::clone` was called on since the last call of this function, in call order (and forget them)
    fn take_clone_order() -> Option<Vec<u32>> {
        None
    }
}
impl IdOf for Tracked {
    fn id_of(&self) -> Option<u32> {
        Some(self.id_unchecked())
    }
}
impl IdOf for u32 {
    fn id_of(&self) -> Option<u32> {
        None
    }
}
impl IdOf for TrackedBig {
    fn id_of(&self) -> Option<u32> {
        self.ident()
    }
}
impl IdOf for TrackedZst {
    fn id_of(&self) -> Option<u32> {
        None
    }
}

fn digits(s: &str) -> Vec<u32> {
    let mut out = vec![];
    let mut cur: Option<u32> = None;
    for c in s.chars() {
        if let Some(d) = c.to_digit(10) {
            cur = Some(cur.unwrap_or(0).wrapping_mul(10).wrapping_add(d));
        } else if let Some(v) = cur.take() {
            out.push(v);
        }
    }
    if let Some(v) = cur {
        out.push(v);
    }
    out
}

struct Run<T: Elem + IdOf + Clone + Debug, N: ArrayLength> {
    it: GenericArrayIter<T, N>,
    model: VecDeque<M>,
    yielded: Vec<T>,
    /// elements the iterator must have released already
    released: Vec<u32>,
    base_ptr: usize,
    front: usize,
    back: usize,
}

impl<T: Elem + IdOf + Clone + Debug, N: ArrayLength> Run<T, N> {
    fn cmp_item(&mut self, what: &str, got: Option<T>, want: Option<M>) -> Result<(), String> {
        match (got, want) {
            (None, None) => Ok(()),
            (Some(g), Some(w)) => {
                let gv = g.get();
                let gid = g.id_of();
                self.yielded.push(g);
                if gv != w.val || (w.id.is_some() && gid != w.id) {
                    return Err(format!("{what}: returned value {gv} (id {gid:?}), queue model says {} (id {:?})", w.val, w.id));
                }
                Ok(())
            }
            (Some(g), None) => {
                let gv = g.get();
                self.yielded.push(g);
                Err(format!("{what}: returned Some({gv}) but the queue model is exhausted"))
            }
            (None, Some(w)) => Err(format!("{what}: returned None but the queue model yields {}", w.val)),
        }
    }

    fn check_released(&mut self, what: &str) -> Result<(), String> {
        for id in self.released.drain(..) {
            if registry::is_live(id) {
                return Err(format!("{what}: skipped element id={id} was not released"));
            }
        }
        Ok(())
    }

    fn invariants(&mut self, what: &str) -> Result<(), String> {
        let len = self.model.len();
        if self.it.len() != len {
            return Err(format!("after {what}: len() = {} but {} elements are still to come", self.it.len(), len));
        }
        if self.it.size_hint() != (len, Some(len)) {
            return Err(format!("after {what}: size_hint() = {:?}, expected ({len}, Some({len}))", self.it.size_hint()));
        }
        let s = self.it.as_slice();
        if s.len() != len {
            return Err(format!("after {what}: as_slice().len() = {} expected {len}", s.len()));
        }
        for (i, (e, m)) in s.iter().zip(self.model.iter()).enumerate() {
            if e.get() != m.val || (m.id.is_some() && e.id_of() != m.id) {
                return Err(format!("after {what}: as_slice()[{i}] = {} (id {:?}), model has {} (id {:?})", e.get(), e.id_of(), m.val, m.id));
            }
        }
        if std::mem::size_of::<T>() > 0 {
            let p = s.as_ptr() as usize;
            if p >= self.base_ptr {
                self.front = (p - self.base_ptr) / std::mem::size_of::<T>();
                self.back = self.front + len;
            }
        }
        Ok(())
    }

    fn model_vals(&self) -> Vec<u32> {
        self.model.iter().map(|m| m.val).collect()
    }

    /// a second iterator over N fresh elements from which `f` front and `b` back elements (255 = all) have been taken
    fn other(f: u8, b: u8) -> (GenericArrayIter<T, N>, Vec<u32>) {
        let n = N::USIZE;
        let arr: GenericArray<T, N> = GenericArray::generate(|i| T::mk(500_000 + i as u32));
        let mut vals: VecDeque<u32> = arr.iter().map(|e| e.get()).collect();
        let mut o = arr.into_iter();
        let f = if f == 255 { n } else { (f as usize).min(n) };
        for _ in 0..f {
            drop(o.next());
            vals.pop_front();
        }
        let b = if b == 255 { n - f } else { (b as usize).min(n - f) };
        for _ in 0..b {
            drop(o.next_back());
            vals.pop_back();
        }
        (o, vals.into_iter().collect())
    }

    fn clone_into(&mut self, f: u8, b: u8) -> Result<(), String> {
        let (mut o, _) = Self::other(f, b);
        let want = self.model_vals();
        o.clone_from(&self.it);
        if o.len() != want.len() || o.size_hint() != (want.len(), Some(want.len())) {
            return Err(format!("other.clone_from(&it): len {} but the source has {} remaining", o.len(), want.len()));
        }
        let got: Vec<u32> = o.as_slice().iter().map(|e| e.get()).collect();
        if got != want {
            return Err(format!("other.clone_from(&it): holds {:?}, the source holds {:?}", got, want));
        }
        let mut drained = vec![];
        let mut flip = false;
        let mut back = vec![];
        while o.len() > 0 {
            flip = !flip;
            if flip { drained.push(o.next().map(|e| e.get())) } else { back.push(o.next_back().map(|e| e.get())) }
        }
        back.reverse();
        drained.extend(back);
        if drained != want.iter().map(|v| Some(*v)).collect::<Vec<_>>() || o.next().is_some() || o.next_back().is_some() {
            return Err(format!("other.clone_from(&it) then drained from both ends: {:?}, expected {:?}", drained, want));
        }
        Ok(())
    }

    fn clone_from_other(&mut self, f: u8, b: u8) -> Result<(), String> {
        let (o, want) = Self::other(f, b);
        for m in self.model.iter() {
            if let Some(id) = m.id {
                self.released.push(id);
            }
        }
        self.it.clone_from(&o);
        let got: Vec<u32> = self.it.as_slice().iter().map(|e| e.get()).collect();
        if got != want {
            return Err(format!("it.clone_from(&other): holds {:?}, the source holds {:?}", got, want));
        }
        let still: Vec<u32> = o.as_slice().iter().map(|e| e.get()).collect();
        if still != want {
            return Err("it.clone_from(&other) disturbed the source".into());
        }
        self.model = self.it.as_slice().iter().map(|e| M { val: e.get(), id: e.id_of() }).collect();
        drop(o);
        self.check_released("clone_from (previous contents of the destination)")
    }

    fn use_clone(&mut self, u: Use) -> Result<(), String> {
        let calls_before = T::clone_calls();
        let marks_before: Vec<Option<u32>> = self.it.as_slice().iter().map(|e| e.cloned_from()).collect();
        let _ = T::take_clone_order();
        let c = self.it.clone();
        let want = self.model_vals();
        // `[T; N]::into_iter().clone()` clones the remaining elements front to back; a `Clone` with side effects (serial numbers,
        // a budget) makes the order part of what the clone holds
        if let Some(order) = T::take_clone_order() {
            if want.len() <= 4096 && order != want {
                return Err(format!(
                    "clone: T::clone was called on the remaining elements in the order {:?}, the native array's iterator clones front to back {:?}",
                    &order[..order.len().min(8)],
                    &want[..want.len().min(8)]
                ));
            }
        }
        for (i, (e, b)) in self.it.as_slice().iter().zip(&marks_before).enumerate() {
            if let (Some(now), Some(before)) = (e.cloned_from(), b) {
                if now != before + 1 {
                    return Err(format!("clone: T::clone was not called on the iterator's own element #{i} (its per-value clone counter went from {before} to {now})"));
                }
            }
        }
        if let (Some(a), Some(b)) = (calls_before, T::clone_calls()) {
            if b - a != want.len() as u64 {
                return Err(format!("clone: T::clone was called {} times for {} remaining elements", b - a, want.len()));
            }
        }
        if c.len() != want.len() {
            return Err(format!("clone: len {} but original has {} remaining", c.len(), want.len()));
        }
        let got: Vec<u32> = c.as_slice().iter().map(|e| e.get()).collect();
        if got != want {
            return Err(format!("clone: remaining elements {:?}, original has {:?}", got, want));
        }
        match u {
            Use::Drop => drop(c),
            Use::Collect => {
                let v: Vec<u32> = c.map(|e| e.get()).collect();
                if v != want {
                    return Err(format!("clone.collect(): {:?} expected {:?}", v, want));
                }
            }
            Use::CollectRev => {
                let v: Vec<u32> = c.rev().map(|e| e.get()).collect();
                let mut w = want.clone();
                w.reverse();
                if v != w {
                    return Err(format!("clone.rev().collect(): {:?} expected {:?}", v, w));
                }
            }
            Use::Fold => {
                let v = c.fold(Vec::new(), |mut a, e| {
                    a.push(e.get());
                    a
                });
                if v != want {
                    return Err(format!("clone.fold(): visited {:?} expected {:?}", v, want));
                }
            }
            Use::RFold => {
                let v = c.rfold(Vec::new(), |mut a, e| {
                    a.push(e.get());
                    a
                });
                let mut w = want.clone();
                w.reverse();
                if v != w {
                    return Err(format!("clone.rfold(): visited {:?} expected {:?}", v, w));
                }
            }
            Use::Count => {
                let k = c.count();
                if k != want.len() {
                    return Err(format!("clone.count() = {k} expected {}", want.len()));
                }
            }
            Use::Last => {
                let l = c.last().map(|e| e.get());
                if l != want.last().copied() {
                    return Err(format!("clone.last() = {:?} expected {:?}", l, want.last()));
                }
            }
            Use::Adaptor(which, sel) => {
                let mut c = c;
                let len = want.len();
                let a = arg(sel, len);
                // the searched value: an element that is still to come, or (odd selectors) a value no element has
                let key = if len == 0 || sel % 2 == 1 { 0xFFFF_FFF0 } else { want[a.min(len - 1)] };
                let fail = |what: &str, got: String, exp: String| Err(format!("clone.{what}: {got}, the queue model gives {exp}"));
                match which % 14 {
                    0 => {
                        let mut v = vec![];
                        c.for_each(|e| v.push(e.get()));
                        if v != want {
                            return fail("for_each", format!("{v:?}"), format!("{want:?}"));
                        }
                    }
                    1 => {
                        let g = c.find(|e| e.get() == key).map(|e| e.get());
                        let w = want.iter().copied().find(|v| *v == key);
                        let rest: Vec<u32> = c.map(|e| e.get()).collect();
                        let wr: Vec<u32> = match want.iter().position(|v| *v == key) {
                            Some(p) => want[p + 1..].to_vec(),
                            None => vec![],
                        };
                        if g != w || rest != wr {
                            return fail("find", format!("{g:?} then {rest:?}"), format!("{w:?} then {wr:?}"));
                        }
                    }
                    2 => {
                        let g = c.rfind(|e| e.get() == key).map(|e| e.get());
                        let w = want.iter().rev().copied().find(|v| *v == key);
                        let rest: Vec<u32> = c.map(|e| e.get()).collect();
                        let wr: Vec<u32> = match want.iter().rposition(|v| *v == key) {
                            Some(p) => want[..p].to_vec(),
                            None => vec![],
                        };
                        if g != w || rest != wr {
                            return fail("rfind", format!("{g:?} then {rest:?}"), format!("{w:?} then {wr:?}"));
                        }
                    }
                    3 => {
                        let g = c.position(|e| e.get() == key);
                        let w = want.iter().position(|v| *v == key);
                        let rest: Vec<u32> = c.map(|e| e.get()).collect();
                        let wr: Vec<u32> = match w {
                            Some(p) => want[p + 1..].to_vec(),
                            None => vec![],
                        };
                        if g != w || rest != wr {
                            return fail("position", format!("{g:?} then {rest:?}"), format!("{w:?} then {wr:?}"));
                        }
                    }
                    4 => {
                        let g = c.rposition(|e| e.get() == key);
                        let w = want.iter().rposition(|v| *v == key);
                        if g != w {
                            return fail("rposition", format!("{g:?}"), format!("{w:?}"));
                        }
                    }
                    5 => {
                        let g: Vec<u32> = c.skip(a).map(|e| e.get()).collect();
                        let w: Vec<u32> = want.iter().copied().skip(a).collect();
                        if g != w {
                            return fail("skip", format!("{g:?}"), format!("{w:?}"));
                        }
                    }
                    6 => {
                        let step = a % 7 + 1;
                        let g: Vec<u32> = c.step_by(step).map(|e| e.get()).collect();
                        let w: Vec<u32> = want.iter().copied().step_by(step).collect();
                        if g != w {
                            return fail("step_by", format!("{g:?}"), format!("{w:?}"));
                        }
                    }
                    7 => {
                        let g: Vec<u32> = c.take(a).map(|e| e.get()).collect();
                        let w: Vec<u32> = want.iter().copied().take(a).collect();
                        if g != w {
                            return fail("take", format!("{g:?}"), format!("{w:?}"));
                        }
                    }
                    8 => {
                        let g = c.rev().nth(a).map(|e| e.get());
                        let w = want.iter().rev().copied().nth(a);
                        if g != w {
                            return fail("rev().nth", format!("{g:?}"), format!("{w:?}"));
                        }
                    }
                    9 => {
                        let mut c2 = c.clone();
                        let (g1, g2) = (c.any(|e| e.get() == key), c2.all(|e| e.get() != key));
                        let (w1, w2) = (want.iter().any(|v| *v == key), want.iter().all(|v| *v != key));
                        if (g1, g2) != (w1, w2) {
                            return fail("any/all", format!("{:?}", (g1, g2)), format!("{:?}", (w1, w2)));
                        }
                    }
                    10 => {
                        let g: u64 = c.map(|e| e.get() as u64).sum();
                        let w: u64 = want.iter().map(|v| *v as u64).sum();
                        if g != w {
                            return fail("map().sum", format!("{g}"), format!("{w}"));
                        }
                    }
                    11 => {
                        let c2 = c.clone();
                        let (g1, g2) = (c.max_by_key(|e| e.get()).map(|e| e.get()), c2.min_by_key(|e| e.get()).map(|e| e.get()));
                        let (w1, w2) = (want.iter().copied().max(), want.iter().copied().min());
                        if (g1, g2) != (w1, w2) {
                            return fail("max_by_key/min_by_key", format!("{:?}", (g1, g2)), format!("{:?}", (w1, w2)));
                        }
                    }
                    12 => {
                        let c2 = c.clone();
                        let g: Vec<(u32, u32)> = c.zip(c2.rev()).map(|(x, y)| (x.get(), y.get())).collect();
                        let w: Vec<(u32, u32)> = want.iter().copied().zip(want.iter().rev().copied()).collect();
                        if g != w {
                            return fail("zip(rev)", format!("{g:?}"), format!("{w:?}"));
                        }
                    }
                    _ => {
                        let g1: Vec<u32> = c.by_ref().take(a).map(|e| e.get()).collect();
                        let g2: Vec<u32> = c.map(|e| e.get()).collect();
                        let w1: Vec<u32> = want.iter().copied().take(a).collect();
                        let w2: Vec<u32> = want.iter().copied().skip(a).collect();
                        if g1 != w1 || g2 != w2 {
                            return fail("by_ref().take then the rest", format!("{g1:?} + {g2:?}"), format!("{w1:?} + {w2:?}"));
                        }
                    }
                }
            }
            Use::NthThenDrop(s) => {
                let mut c = c;
                let a = arg(s, want.len());
                let g = c.nth(a).map(|e| e.get());
                let w = want.get(a).copied();
                if g != w {
                    return Err(format!("clone.nth({a}) = {:?} expected {:?}", g, w));
                }
                let rest: Vec<u32> = c.as_slice().iter().map(|e| e.get()).collect();
                let wr: Vec<u32> = want.iter().skip(a.saturating_add(1)).copied().collect();
                if rest != wr {
                    return Err(format!("clone after nth({a}): remaining {:?} expected {:?}", rest, wr));
                }
            }
            Use::NthBackThenDrop(s) => {
                let mut c = c;
                let a = arg(s, want.len());
                let g = c.nth_back(a).map(|e| e.get());
                let w = if a < want.len() { Some(want[want.len() - 1 - a]) } else { None };
                if g != w {
                    return Err(format!("clone.nth_back({a}) = {:?} expected {:?}", g, w));
                }
                let keep = want.len().saturating_sub(a.saturating_add(1));
                let rest: Vec<u32> = c.as_slice().iter().map(|e| e.get()).collect();
                if rest != want[..keep] {
                    return Err(format!("clone after nth_back({a}): remaining {:?} expected {:?}", rest, &want[..keep]));
                }
            }
        }
        Ok(())
    }

    fn apply(&mut self, op: Op) -> Result<(), String> {
        let len = self.model.len();
        match op {
            Op::Next => {
                let g = self.it.next();
                let w = self.model.pop_front();
                self.cmp_item("next()", g, w)
            }
            Op::NextBack => {
                let g = self.it.next_back();
                let w = self.model.pop_back();
                self.cmp_item("next_back()", g, w)
            }
            Op::Nth(s) => {
                let a = arg(s, len);
                let g = self.it.nth(a);
                for _ in 0..a.min(len) {
                    if let Some(m) = self.model.pop_front() {
                        if let Some(id) = m.id {
                            self.released.push(id)
                        }
                    }
                }
                let w = self.model.pop_front();
                self.cmp_item(&format!("nth({a}) with {len} remaining"), g, w)?;
                self.check_released(&format!("nth({a})"))
            }
            Op::NthBack(s) => {
                let a = arg(s, len);
                let g = self.it.nth_back(a);
                for _ in 0..a.min(len) {
                    if let Some(m) = self.model.pop_back() {
                        if let Some(id) = m.id {
                            self.released.push(id)
                        }
                    }
                }
                let w = self.model.pop_back();
                self.cmp_item(&format!("nth_back({a}) with {len} remaining"), g, w)?;
                self.check_released(&format!("nth_back({a})"))
            }
            Op::Len => {
                let l = ExactSizeIterator::len(&self.it);
                if l != len {
                    return Err(format!("len() = {l} but {len} elements are still to come"));
                }
                Ok(())
            }
            Op::AsSlice => Ok(()), // part of the invariants checked after every op
            Op::Write(sel, v) => {
                if len > 0 {
                    let i = (sel as usize * len) >> 16;
                    let s = self.it.as_mut_slice();
                    if s.len() != len {
                        return Err(format!("as_mut_slice().len() = {} expected {len}", s.len()));
                    }
                    let new = T::mk(v);
                    let id = new.id_of();
                    if let Some(old) = self.model[i].id {
                        self.released.push(old);
                    }
                    s[i] = new;
                    self.model[i] = M { val: T::norm(v), id };
                    self.check_released("write through as_mut_slice")
                } else {
                    if !self.it.as_mut_slice().is_empty() {
                        return Err("as_mut_slice() not empty on an exhausted iterator".into());
                    }
                    Ok(())
                }
            }
            Op::Clone(u) => self.use_clone(u),
            Op::CloneInto(f, b) => self.clone_into(f, b),
            Op::CloneFromOther(f, b) => self.clone_from_other(f, b),
            Op::Debug | Op::DebugAlt => {
                let s = if op == Op::Debug { format!("{:?}", self.it) } else { format!("{:#?}", self.it) };
                let got = digits(&s);
                let want = self.model_vals();
                if got != want {
                    return Err(format!("Debug shows {:?} but the remaining elements are {:?} (output: {})", got, want, &s[..s.len().min(120)]));
                }
                // the caller's format flags reach the elements, as they do for the slice of the remaining elements
                if op == Op::DebugAlt && T::KIND == "u32" && !want.is_empty() {
                    let rest = self.it.as_slice();
                    for (spec, got, inner) in [
                        ("{:x?}", format!("{:x?}", self.it), format!("{:x?}", rest)),
                        ("{:X?}", format!("{:X?}", self.it), format!("{:X?}", rest)),
                        ("{:07?}", format!("{:07?}", self.it), format!("{:07?}", rest)),
                        ("{:+?}", format!("{:+?}", self.it), format!("{:+?}", rest)),
                    ] {
                        if !got.contains(&inner) {
                            return Err(format!("Debug with {spec} prints {:?}, which does not show the remaining elements as the slice prints them ({:?})", &got[..got.len().min(100)], &inner[..inner.len().min(100)]));
                        }
                    }
                    if s.lines().count() < want.len() {
                        return Err(format!("Debug with {{:#?}} is not pretty-printed: {:?}", &s[..s.len().min(100)]));
                    }
                }
                Ok(())
            }
        }
    }
}

fn exec_typed<T: Elem + IdOf + Clone + Debug, N: ArrayLength>(case: &Case, acc: &mut Acc) -> Result<(), String> {
    registry::reset();
    let n = N::USIZE;
    let arr: GenericArray<T, N> = GenericArray::generate(|i| T::mk(10_000 + i as u32));
    let model: VecDeque<M> = arr.iter().map(|e| M { val: e.get(), id: e.id_of() }).collect();
    let all_ids: Vec<u32> = model.iter().filter_map(|m| m.id).collect();
    let it = arr.into_iter();
    let base_ptr = it.as_slice().as_ptr() as usize;
    let mut run = Run::<T, N> { it, model, yielded: vec![], released: vec![], base_ptr, front: 0, back: n };
    run.invariants("into_iter")?;
    let mut both_ends = (false, false);
    let mut positions: Vec<(usize, usize, Op)> = vec![];
    for (k, op) in case.ops.iter().enumerate() {
        positions.push((run.front, run.back, *op));
        match op {
            Op::Next | Op::Nth(_) => both_ends.0 = true,
            Op::NextBack | Op::NthBack(_) => both_ends.1 = true,
            _ => {}
        }
        run.apply(*op).map_err(|e| format!("op #{k} {:?} at (front={}, back={}): {e}", op, run.front, run.back))?;
        run.invariants(&format!("op #{k} {:?}", op))?;
    }
    let remaining: Vec<M> = run.model.iter().cloned().collect();
    let Run { mut it, yielded, .. } = run;
    let want: Vec<u32> = remaining.iter().map(|m| m.val).collect();
    let mut held: Vec<T> = yielded;
    match case.end {
        End::Drop => drop(it),
        End::Drain(mut pat) => {
            let mut model: VecDeque<M> = remaining.iter().cloned().collect();
            loop {
                let back = pat & 1 == 1;
                pat = pat.rotate_right(1);
                let (g, w) = if back { (it.next_back(), model.pop_back()) } else { (it.next(), model.pop_front()) };
                match (g, w) {
                    (None, None) => break,
                    (Some(g), Some(w)) => {
                        if g.get() != w.val || (w.id.is_some() && g.id_of() != w.id) {
                            return Err(format!("drain: got {} (id {:?}) expected {} (id {:?})", g.get(), g.id_of(), w.val, w.id));
                        }
                        held.push(g);
                    }
                    (g, w) => return Err(format!("drain: got {:?} expected {:?}", g.map(|e| e.get()), w.map(|m| m.val))),
                }
            }
            // fused: stays exhausted whatever is asked
            for round in 0..3 {
                if it.next().is_some() || it.next_back().is_some() || it.nth(round).is_some() || it.nth_back(round).is_some() {
                    return Err("exhausted iterator yielded an element again".into());
                }
                if it.len() != 0 || it.size_hint() != (0, Some(0)) || !it.as_slice().is_empty() {
                    return Err("exhausted iterator reports a non-zero length".into());
                }
            }
            drop(it);
        }
        End::Fold => {
            let v = it.fold(Vec::new(), |mut a, e| {
                a.push(e.get());
                a
            });
            if v != want {
                return Err(format!("fold visited {:?}, remaining elements were {:?}", v, want));
            }
        }
        End::RFold => {
            let v = it.rfold(Vec::new(), |mut a, e| {
                a.push(e.get());
                a
            });
            let mut w = want.clone();
            w.reverse();
            if v != w {
                return Err(format!("rfold visited {:?}, expected {:?}", v, w));
            }
        }
        End::Count => {
            let c = it.count();
            if c != want.len() {
                return Err(format!("count() = {c}, {} elements were still to come", want.len()));
            }
        }
        End::Last => {
            let l = it.last();
            let lv = l.as_ref().map(|e| e.get());
            if lv != want.last().copied() {
                return Err(format!("last() = {:?}, expected {:?}", lv, want.last()));
            }
            if let Some(l) = l {
                held.push(l)
            }
        }
    }
    // everything handed to the caller is still live, everything else has been released
    for e in &held {
        e.get();
    }
    let held_ids: Vec<u32> = held.iter().filter_map(|e| e.id_of()).collect();
    for id in &all_ids {
        if !held_ids.contains(id) && registry::is_live(*id) {
            return Err(format!("element id={id} neither yielded nor released once the iterator is gone"));
        }
    }
    drop(held);
    engine::end_case(false)?;
    // accounting
    let nontrivial = case.ops.len() >= 2 && (both_ends.0 && both_ends.1 || case.ops.iter().any(|o| matches!(o, Op::Nth(_) | Op::NthBack(_) | Op::Clone(_))));
    acc.count(nontrivial, case);
    if both_ends.0 && both_ends.1 {
        acc.class("consumed_from_both_ends");
    }
    if case.ops.iter().any(|o| matches!(o, Op::Clone(_))) {
        acc.class("with_clone");
    }
    if case.ops.iter().any(|o| matches!(o, Op::Nth(s) | Op::NthBack(s) if *s >= 6)) {
        acc.class("nth_arg_at_or_beyond_len");
    }
    if T::KIND != "tracked_zst" && T::KIND != "zst_no_drop_glue" {
        for (f, b, op) in positions {
            acc.aux("positions_reached_n_front_back_op", &(n, f, b, op));
        }
    }
    acc.class(&format!("kind_{}", T::KIND));
    Ok(())
}

pub fn exec(case: &Case, acc: &mut Acc) -> Result<(), String> {
    match case.kind {
        Kind::Tracked => with_mid!(case.n, N, exec_typed::<Tracked, N>(case, acc)),
        Kind::U32 => with_mid!(case.n, N, exec_typed::<u32, N>(case, acc)),
        Kind::Zst => with_mid!(case.n, N, exec_typed::<TrackedZst, N>(case, acc)),
        Kind::Big => with_mid!(case.n, N, exec_typed::<TrackedBig, N>(case, acc)),
        Kind::Uz => with_mid!(case.n, N, exec_typed::<Uz, N>(case, acc)),
        Kind::Gen => with_mid!(case.n, N, exec_typed::<Gen, N>(case, acc)),
    }
}

// -------------------------------------------------------------------------------------------

fn use_strategy() -> impl Strategy<Value = Use> {
    prop_oneof![
        1 => Just(Use::Drop),
        1 => Just(Use::Collect),
        1 => Just(Use::CollectRev),
        1 => Just(Use::Fold),
        1 => Just(Use::RFold),
        1 => Just(Use::Count),
        1 => Just(Use::Last),
        1 => (0u8..11).prop_map(Use::NthThenDrop),
        1 => (0u8..11).prop_map(Use::NthBackThenDrop),
        3 => (0u8..14, 0u8..11).prop_map(|(w, s)| Use::Adaptor(w, s)),
    ]
}

fn op_strategy() -> impl Strategy<Value = Op> {
    prop_oneof![
        5 => Just(Op::Next),
        5 => Just(Op::NextBack),
        4 => (0u8..11).prop_map(Op::Nth),
        4 => (0u8..11).prop_map(Op::NthBack),
        1 => Just(Op::Len),
        1 => Just(Op::AsSlice),
        2 => (any::<u16>(), 20_000u32..90_000).prop_map(|(s, v)| Op::Write(s, v)),
        3 => use_strategy().prop_map(Op::Clone),
        2 => (any::<bool>(), prop_oneof![3 => 0u8..6, 1 => any::<u8>()], prop_oneof![3 => 0u8..6, 1 => any::<u8>()]).prop_map(|(into, f, b)| if into { Op::CloneInto(f, b) } else { Op::CloneFromOther(f, b) }),
        2 => any::<bool>().prop_map(|alt| if alt { Op::DebugAlt } else { Op::Debug }),
    ]
}

fn end_strategy() -> impl Strategy<Value = End> {
    prop_oneof![
        Just(End::Drop),
        any::<u32>().prop_map(End::Drain),
        Just(End::Fold),
        Just(End::RFold),
        Just(End::Count),
        Just(End::Last),
    ]
}

fn case_strategy() -> impl Strategy<Value = Case> {
    let lens = harness::lens::MID;
    (0..lens.len(), prop_oneof![3 => Just(Kind::Tracked), 2 => Just(Kind::U32), 1 => Just(Kind::Zst), 1 => Just(Kind::Big), 1 => Just(Kind::Uz), 1 => Just(Kind::Gen)], prop::collection::vec(op_strategy(), 0..60), end_strategy())
        .prop_map(move |(li, kind, ops, end)| Case { n: lens[li], kind, ops, end })
}

/// Every operation with every argument from every reachable position, N <= nmax.
fn exhaustive_cases(nmax: usize) -> Vec<Case> {
    let mut out = vec![];
    let uses = [Use::Drop, Use::Collect, Use::CollectRev, Use::Fold, Use::RFold, Use::Count, Use::Last];
    for n in 0..=nmax {
        for f in 0..=n {
            for b in 0..=(n - f) {
                for route in 0..2 {
                    let mut prefix = vec![];
                    if route == 0 {
                        prefix.extend(std::iter::repeat(Op::Next).take(f));
                        prefix.extend(std::iter::repeat(Op::NextBack).take(b));
                    } else {
                        if f == 0 && b == 0 {
                            continue;
                        }
                        // nth(f-1) consumes f elements; literal selectors cover 0..=5, beyond that use repeated calls
                        let mut ff = f;
                        while ff > 0 {
                            let step = ff.min(6);
                            prefix.push(Op::Nth((step - 1) as u8));
                            ff -= step;
                        }
                        let mut bb = b;
                        while bb > 0 {
                            let step = bb.min(6);
                            prefix.push(Op::NthBack((step - 1) as u8));
                            bb -= step;
                        }
                    }
                    let len = n - f - b;
                    let mut ops: Vec<Op> = vec![Op::Next, Op::NextBack, Op::Len, Op::Debug, Op::DebugAlt];
                    // arguments 0..=len+2 (selectors 0..=5 literal, 11.. = 6..)
                    for a in 0..=len + 2 {
                        let sel = if a <= 5 { a as u8 } else { (a - 6 + 11) as u8 };
                        ops.push(Op::Nth(sel));
                        ops.push(Op::NthBack(sel));
                    }
                    ops.push(Op::Nth(10));
                    ops.push(Op::NthBack(10));
                    if len > 0 {
                        for i in 0..len {
                            ops.push(Op::Write(((i << 16) / len + 1).min(65535) as u16, 77_000 + i as u32));
                        }
                    } else {
                        ops.push(Op::Write(0, 77_000));
                    }
                    for u in uses {
                        ops.push(Op::Clone(u));
                    }
                    for w in 0..14u8 {
                        for sel in [0u8, 1, 2, 6, 7, 8] {
                            ops.push(Op::Clone(Use::Adaptor(w, sel)));
                        }
                    }
                    for a in 0..=(len + 2).min(10) {
                        let sel = if a <= 5 { a as u8 } else { (a - 6 + 11) as u8 };
                        ops.push(Op::Clone(Use::NthThenDrop(sel)));
                        ops.push(Op::Clone(Use::NthBackThenDrop(sel)));
                    }
                    for op in ops {
                        let mut o = prefix.clone();
                        o.push(op);
                        out.push(Case { n, kind: Kind::Tracked, ops: o, end: End::Drain(0b0110_1001) });
                    }
                    // clone_from in both directions against a second iterator in every position
                    for f2 in 0..=n {
                        for b2 in 0..=(n - f2) {
                            for op in [Op::CloneInto(f2 as u8, b2 as u8), Op::CloneFromOther(f2 as u8, b2 as u8)] {
                                let mut o = prefix.clone();
                                o.push(op);
                                out.push(Case { n, kind: Kind::Tracked, ops: o.clone(), end: End::Drain(0b0110_1001) });
                                if (f2 + b2) % 3 == 0 {
                                    out.push(Case { n, kind: Kind::Gen, ops: o, end: End::Drain(0b1010_0110) });
                                }
                            }
                        }
                    }
                    for u in uses {
                        let mut o = prefix.clone();
                        o.push(Op::Clone(u));
                        out.push(Case { n, kind: Kind::Gen, ops: o, end: End::Drain(0b0110_1001) });
                    }
                    for end in [End::Drop, End::Fold, End::RFold, End::Count, End::Last, End::Drain(0), End::Drain(u32::MAX)] {
                        out.push(Case { n, kind: Kind::Tracked, ops: prefix.clone(), end });
                        out.push(Case { n, kind: Kind::Zst, ops: prefix.clone(), end });
                        out.push(Case { n, kind: Kind::Uz, ops: prefix.clone(), end });
                    }
                }
            }
        }
    }
    out
}

fn exec_exh(case: &Case, acc: &mut Acc) -> Result<(), String> {
    exec(case, acc)
}

pub fn main() {
    let args = Args::parse();
    engine::install_hook();
    engine::maybe_replay_many::<Case>(PROP, &args, exec);
    let started = std::time::Instant::now();
    if let Some(p) = &args.replay {
        let case: Case = engine::load_replay(p);
        let mut acc = Acc::new();
        let r = engine::catch(|| exec(&case, &mut acc)).unwrap_or_else(|c| Err(format!("panic: {}", c.msg)));
        engine::finish_replay(PROP, p, r);
    }
    let nmax = if args.thorough() { 12 } else { 8 };
    let exh = exhaustive_cases(nmax);
    let random_cases = args.scale(400_000, 12) as u32;
    let strat = case_strategy();
    let acc = engine::parallel(&args, PROP, |w, workers, acc| {
        for (i, c) in exh.iter().enumerate() {
            if i % workers == w {
                acc.run(c, exec_exh);
            }
        }
        acc.class_n("exhaustive_cases", exh.iter().enumerate().filter(|(i, _)| i % workers == w).count() as u64);
        engine::prop_search(acc, args.seed, w as u64, random_cases / workers as u32, &strat, |c, acc| exec(c, acc));
    });
    engine::finish(
        &args,
        started,
        acc,
        Report {
            prop: PROP,
            level: "exploration",
            rule: "cases = (length, element kind: drop-tracked 24-byte / u32 / drop-tracked 96-byte / zero-sized with a destructor / zero-sized without one / no drop glue with a call-counting Clone, operation sequence, final consuming operation) run against a VecDeque model; clones are consumed through the listed operations and through 14 provided adaptor methods an implementation may override (for_each, find, rfind, position, rposition, skip, step_by, take, rev, any/all, sum, max/min_by_key, zip, by_ref); \
                   exhaustive part: every operation with every argument 0..=len+2 from every reachable (front, back) position, reached by a next/next_back route and by an nth/nth_back route; \
                   random part: proptest sequences of 0..60 operations on lengths 0..=12,16,31,32,33,64,100,255,256,1000,1024. \
                   non-trivial = at least two operations and (consumption from both ends, or an nth/nth_back, or a clone); \
                   distinct = distinct cases; distinct_positions_reached_n_front_back_op separately counts the (N, front, back, operation) tuples actually reached (front index observed through as_slice().as_ptr())",
            exhaustive: false,
            assumptions: vec![
                "VecDeque pop_front/pop_back semantics are the reference for a double-ended queue".into(),
                format!("exhaustive over N in 0..={nmax}; larger N only sampled"),
            ],
            extra: serde_json::json!({"exhaustive_part": {"n_max": nmax, "cases": exh.len()}}),
        },
    );
}


/// bytes -> case (coverage-guided fuzzing front end)
pub fn decode(data: &[u8]) -> Case {
    let lens = harness::lens::MID;
    let g = |i: usize| data.get(i).copied().unwrap_or(0);
    // the libFuzzer process runs cases on an 8 MiB main-thread stack (with ASan red zones): keep arrays small there
    let lens: Vec<usize> = lens.iter().copied().filter(|n| *n <= 1024).collect();
    let mut n = lens[g(0) as usize % lens.len()];
    if g(1) % 8 == 4 && n > 256 {
        n = 256;
    }
    let kind = match g(1) % 8 {
        0..=2 => Kind::Tracked,
        3 => Kind::U32,
        4 => Kind::Big,
        5 => Kind::Uz,
        6 => Kind::Gen,
        _ => Kind::Zst,
    };
    let end = match g(2) % 6 {
        0 => End::Drop,
        1 => End::Drain(u32::from_le_bytes([g(3), g(4), g(3) ^ 0x5a, g(4) ^ 0xa5])),
        2 => End::Fold,
        3 => End::RFold,
        4 => End::Count,
        _ => End::Last,
    };
    let uses = |b: u8, a: u8| match b % 9 {
        0 => Use::Drop,
        1 => Use::Collect,
        2 => Use::CollectRev,
        3 => Use::Fold,
        4 => Use::RFold,
        5 => Use::Count,
        6 => Use::Last,
        7 => Use::NthThenDrop(a % 11),
        _ => Use::NthBackThenDrop(a % 11),
    };
    let mut ops = vec![];
    for ch in data.get(5..).unwrap_or(&[]).chunks(3) {
        if ops.len() >= 80 {
            break;
        }
        let h = |i: usize| ch.get(i).copied().unwrap_or(0);
        ops.push(match h(0) % 12 {
            0 | 1 => Op::Next,
            2 | 3 => Op::NextBack,
            4 => Op::Nth(h(1) % 11),
            5 => Op::NthBack(h(1) % 11),
            6 => Op::Len,
            7 => Op::Write(u16::from_le_bytes([h(1), h(2)]), 20_000 + h(2) as u32),
            8 | 9 => Op::Clone(uses(h(1), h(2))),
            10 => Op::Debug,
            _ => Op::DebugAlt,
        });
    }
    Case { n, kind, ops, end }
}
