//! C16 - every heap block is requested validly, freed once with its layout, never leaked.
//! Recording global allocator + injected panics (in-process) + injected allocation failures (child process).

use generic_array::functional::FunctionalSequence;
use generic_array::sequence::GenericSequence;
use generic_array::{box_arr, ArrayLength, GenericArray};
use harness::engine::{self, Acc, Args, Report};
use harness::len_match;
use harness::ralloc::{self, Ev, RecAlloc};
use harness::registry::{self, Elem, Peek, Tracked};
use harness::script::{Hint, ScriptIter};
use serde::{Deserialize, Serialize};
use std::panic::{catch_unwind, AssertUnwindSafe};

#[global_allocator]
static ALLOC: RecAlloc = RecAlloc;

pub const PROP: &str = "C16";

pub type ZeroLen = registry::ZeroLenArr;

#[derive(Clone, Copy, Default, PartialEq, Debug)]
#[repr(align(32))]
pub struct A32(pub u32);


impl Elem for A32 {
    const KIND: &'static str = "align32";
    const NEEDS_DROP: bool = false;
    fn mk(v: u32) -> Self {
        A32(v)
    }
    fn get(&self) -> u32 {
        self.0
    }
}
impl Peek for A32 {
    fn peek(&self) -> u32 {
        self.0
    }
}

#[derive(Clone, Copy, Debug, Serialize, Deserialize, PartialEq, Eq, Hash)]
pub enum Kind {
    U8,
    U64,
    Unit,
    ZeroLen,
    Tracked,
    A32,
}

#[derive(Clone, Copy, Debug, Serialize, Deserialize, PartialEq, Eq, Hash)]
pub enum Op {
    /// (length delta -1/0/+1, spare capacity)
    VecToArr(i8, usize),
    SliceToArr(i8),
    ArrToVec,
    ArrToSlice,
    BoxIntoSlice,
    BoxIntoVec,
    SliceToBox(i8),
    VecToBox(i8, usize),
    /// take k elements from the front, then drop the iterator
    BoxIntoIter(usize),
    /// (produced count delta, fallible form?, exact hint?)
    BoxedCollect(i8, bool, bool),
    DefaultBoxed,
    BoxedGenerate,
    BoxArrRepeat,
    BoxedMap,
    BoxedZip,
    BoxedFold,
    BoxClone,
    BoxNew,
    /// direct call of the doc-hidden entry points with a boxed right-hand operand: 0 = boxed.inverted_zip(stack), 1 = boxed.inverted_zip2(boxed)
    BoxInvertedZip(u8),
    /// boxed map to a type of the same size but lower alignment (u64 -> [u16; 4], align(32) -> [u8; 32], u8 -> i8 as control)
    BoxedMapNarrow,
    /// boxed collect / boxed map of arrays around and above 1 MiB: (shape 0..5, exact size hint?)
    LargeCollect(u8, bool),
}

#[derive(Clone, Copy, Debug, Serialize, Deserialize, PartialEq, Eq, Hash)]
pub enum Fault {
    None,
    /// panic at the k-th invocation of caller code
    Panic(u64),
    /// the k-th allocation made while the operation runs returns null (child process)
    AllocFail(u64),
}

#[derive(Clone, Debug, Serialize, Deserialize, PartialEq, Eq, Hash)]
pub struct Case {
    pub op: Op,
    pub n: usize,
    pub kind: Kind,
    pub fault: Fault,
}

fn src_vec<T: Elem>(len: usize, spare: usize) -> Vec<T> {
    let mut v = Vec::with_capacity(len + spare);
    v.extend((0..len).map(|i| T::mk(10 + i as u32)));
    v
}

fn delta(n: usize, d: i8) -> usize {
    (n as i64 + d as i64).max(0) as usize
}

/// Build the inputs, run the operation, drop every result. `arm_at_op` is called once the inputs exist.
fn run_op<T: Elem + Peek + Clone + Default, N: ArrayLength>(op: Op, arm_at_op: &mut dyn FnMut()) {
    let n = N::USIZE;
    let arr = || -> GenericArray<T, N> { GenericArray::generate(|i| T::mk(10 + i as u32)) };
    match op {
        Op::VecToArr(d, spare) => {
            let v = src_vec::<T>(delta(n, d), spare);
            arm_at_op();
            drop(GenericArray::<T, N>::try_from(v));
        }
        Op::SliceToArr(d) => {
            let v = src_vec::<T>(delta(n, d), 0).into_boxed_slice();
            arm_at_op();
            drop(GenericArray::<T, N>::try_from(v));
        }
        Op::ArrToVec => {
            let a = arr();
            arm_at_op();
            drop(Vec::<T>::from(a));
        }
        Op::ArrToSlice => {
            let a = arr();
            arm_at_op();
            drop(Box::<[T]>::from(a));
        }
        Op::BoxNew => {
            let a = arr();
            arm_at_op();
            drop(Box::new(a));
        }
        Op::BoxIntoSlice => {
            let b = Box::new(arr());
            arm_at_op();
            drop(b.into_boxed_slice());
        }
        Op::BoxIntoVec => {
            let b = Box::new(arr());
            arm_at_op();
            let mut v = b.into_vec();
            v.push(T::mk(1)); // forces a realloc of the handed-over block: its recorded layout must be right
            drop(v);
        }
        Op::SliceToBox(d) => {
            let v = src_vec::<T>(delta(n, d), 0).into_boxed_slice();
            arm_at_op();
            drop(GenericArray::<T, N>::try_from_boxed_slice(v));
        }
        Op::VecToBox(d, spare) => {
            let v = src_vec::<T>(delta(n, d), spare);
            arm_at_op();
            drop(GenericArray::<T, N>::try_from_vec(v));
        }
        Op::BoxIntoIter(k) => {
            let b = Box::new(arr());
            arm_at_op();
            let mut it = b.into_iter();
            for _ in 0..k.min(n) {
                drop(it.next());
            }
            drop(it);
        }
        Op::BoxedCollect(d, fallible, exact) => {
            let items: Vec<T> = (0..delta(n, d)).map(|i| T::mk(10 + i as u32)).collect();
            let (src, _probe) = ScriptIter::new(items, vec![], if exact { Hint::Exact } else { Hint::Unknown }, true);
            arm_at_op();
            if fallible {
                drop(GenericArray::<T, N>::try_boxed_from_iter(src));
            } else {
                // the length panic of from_iter is part of the contract: caught here, an injected one is re-raised
                match catch_unwind(AssertUnwindSafe(|| src.collect::<Box<GenericArray<T, N>>>())) {
                    Ok(b) => drop(b),
                    Err(p) => {
                        if p.is::<registry::Injected>() {
                            drop(p);
                            std::panic::panic_any(registry::Injected("propagated"));
                        }
                        drop(p);
                    }
                }
            }
        }
        Op::DefaultBoxed => {
            arm_at_op();
            drop(GenericArray::<T, N>::default_boxed());
        }
        Op::BoxedGenerate => {
            arm_at_op();
            drop(Box::<GenericArray<T, N>>::generate(|i| {
                registry::tick("boxed generate closure");
                T::mk(i as u32)
            }));
        }
        Op::BoxArrRepeat => {
            let x = T::mk(5);
            arm_at_op();
            drop(box_arr![x; N]);
        }
        Op::BoxedMap => {
            let b = Box::new(arr());
            arm_at_op();
            drop(b.map(|x| {
                registry::tick("boxed map closure");
                let v = x.get();
                drop(x);
                T::mk(v + 1)
            }));
        }
        Op::BoxedZip => {
            let a = Box::new(arr());
            let b = Box::new(arr());
            arm_at_op();
            drop(a.zip(b, |l, r| {
                registry::tick("boxed zip closure");
                let v = l.get() ^ r.get();
                drop((l, r));
                T::mk(v)
            }));
        }
        Op::BoxedFold => {
            let b = Box::new(arr());
            arm_at_op();
            let _ = b.fold(0u32, |acc, x| {
                registry::tick("boxed fold closure");
                acc ^ x.get()
            });
        }
        Op::BoxClone => {
            let b = Box::new(arr());
            arm_at_op();
            let c = b.clone();
            drop(b);
            drop(c);
        }
        Op::BoxInvertedZip(which) => {
            let a = arr();
            let b = Box::new(arr());
            arm_at_op();
            if which == 0 {
                drop(b.inverted_zip(a, |l, r| {
                    registry::tick("boxed inverted_zip closure");
                    let v = l.get() ^ r.get();
                    drop((l, r));
                    T::mk(v)
                }));
            } else {
                drop(b.inverted_zip2(Box::new(a), |l, r| {
                    registry::tick("boxed inverted_zip2 closure");
                    let v = l.get() ^ r.get();
                    drop((l, r));
                    T::mk(v)
                }));
            }
        }
        Op::BoxedMapNarrow | Op::LargeCollect(..) => unreachable!(),
    }
}

fn run_narrow<N: ArrayLength>(kind: Kind, arm_at_op: &mut dyn FnMut()) {
    match kind {
        Kind::U64 => {
            let b: Box<GenericArray<u64, N>> = Box::new(GenericArray::generate(|i| i as u64));
            arm_at_op();
            drop(b.map(|x| {
                registry::tick("boxed map closure");
                [x as u16, 1, 2, 3]
            }));
        }
        Kind::A32 => {
            let b: Box<GenericArray<A32, N>> = Box::new(GenericArray::generate(|i| A32(i as u32)));
            arm_at_op();
            drop(b.map(|x| {
                registry::tick("boxed map closure");
                [x.0 as u8; 32]
            }));
        }
        _ => {
            let b: Box<GenericArray<u32, N>> = Box::new(GenericArray::generate(|i| i as u32));
            arm_at_op();
            drop(b.map(|x| {
                registry::tick("boxed map closure");
                x.to_le_bytes()
            }));
        }
    }
}

fn run_large(shape: u8, exact: bool, arm_at_op: &mut dyn FnMut()) {
    use generic_array::typenum::operator_aliases::{Add1, Prod};
    use generic_array::typenum::{U1048576, U131072, U3, U65536};
    fn go<T: Copy + Default + 'static, N: ArrayLength>(exact: bool, arm_at_op: &mut dyn FnMut(), f: fn(usize) -> T) {
        arm_at_op();
        let n = N::USIZE;
        let b: Box<GenericArray<T, N>> = if exact { (0..n).map(f).collect() } else { (0..n).map(f).filter(|_| true).collect() };
        // boxed map goes through the same boxed collect
        let c = b.map(|x| x);
        let r = GenericArray::<T, N>::try_boxed_from_iter((0..n + 1).map(f).filter(|_| true));
        drop(r);
        drop(c);
    }
    match shape {
        0 => go::<u64, Add1<U131072>>(exact, arm_at_op, |i| i as u64),
        1 => go::<u64, Prod<U65536, U3>>(exact, arm_at_op, |i| i as u64),
        2 => go::<u8, Add1<U1048576>>(exact, arm_at_op, |i| i as u8),
        3 => go::<u8, Prod<U1048576, U3>>(exact, arm_at_op, |i| i as u8),
        _ => go::<u64, U131072>(exact, arm_at_op, |i| i as u64),
    }
}

macro_rules! lens {
    ($n:expr, $N:ident, $body:expr) => {
        len_match!($n, $N, $body, [0: U0, 1: U1, 2: U2, 3: U3, 7: U7, 8: U8, 16: U16, 33: U33, 1024: U1024])
    };
}
const LENS: &[usize] = &[0, 1, 2, 3, 7, 8, 16, 33, 1024];

fn dispatch(case: &Case, arm_at_op: &mut dyn FnMut()) {
    if let Op::LargeCollect(shape, exact) = case.op {
        return run_large(shape, exact, arm_at_op);
    }
    if case.op == Op::BoxedMapNarrow {
        return lens!(case.n, N, run_narrow::<N>(case.kind, arm_at_op));
    }
    match case.kind {
        Kind::U8 => lens!(case.n, N, run_op::<u8, N>(case.op, arm_at_op)),
        Kind::U64 => lens!(case.n, N, run_op::<u64, N>(case.op, arm_at_op)),
        Kind::Unit => lens!(case.n, N, run_op::<(), N>(case.op, arm_at_op)),
        Kind::ZeroLen => lens!(case.n, N, run_op::<ZeroLen, N>(case.op, arm_at_op)),
        Kind::Tracked => lens!(case.n, N, run_op::<Tracked, N>(case.op, arm_at_op)),
        Kind::A32 => lens!(case.n, N, run_op::<A32, N>(case.op, arm_at_op)),
    }
}

struct Outcome {
    calls: u64,
    allocs: usize,
    fired: bool,
}

fn describe(e: &Ev) -> String {
    format!("{:?}", e)
}

/// In-process run: the whole life of inputs and results is inside the recorded window.
fn run_recorded(case: &Case) -> Result<Outcome, String> {
    registry::reset();
    let k = match case.fault {
        Fault::Panic(k) => Some(k),
        _ => None,
    };
    ralloc::arm(None);
    let r = engine::quiet(|| {
        catch_unwind(AssertUnwindSafe(|| {
            dispatch(case, &mut || {
                if let Some(k) = k {
                    registry::panic_at_call(k);
                }
            })
        }))
    });
    let (panicked, injected) = match r {
        Ok(()) => (false, false),
        Err(p) => {
            let inj = p.is::<registry::Injected>();
            drop(p);
            (true, inj)
        }
    };
    let events = ralloc::disarm();
    let fired = registry::call_panic_fired();
    let calls = registry::calls();
    registry::clear_call_panic();
    if panicked && !injected {
        return Err("an unexpected (not injected) panic escaped the operation".into());
    }
    if fired && !panicked {
        return Err("the injected panic did not propagate".into());
    }
    let a = ralloc::analyze(&events);
    if let Some(z) = a.zero_size_requests.first() {
        return Err(format!("C16/zero-size-request: the allocator was asked for a zero-sized block: {}", describe(z)));
    }
    if let Some((orig, rel)) = a.layout_mismatches.first() {
        return Err(format!("C16/layout-mismatch: a block requested as {} was released/resized as {}", describe(orig), describe(rel)));
    }
    if let Some(d) = a.double_free.first() {
        return Err(format!("C16/double-free: {}", describe(d)));
    }
    if !a.live.is_empty() {
        return Err(format!(
            "C16/block-leak: {} block(s) allocated by the case are still live once all values are gone{}: {}",
            a.live.len(),
            if fired { " (after the injected panic)" } else { "" },
            describe(&a.live[0])
        ));
    }
    engine::end_case(false)?;
    Ok(Outcome { calls, allocs: a.allocs, fired })
}

/// Child-process body: the k-th allocation made while the operation runs fails.
fn child_main(case: &Case) -> ! {
    let k = match case.fault {
        Fault::AllocFail(k) => k,
        _ => u64::MAX,
    };
    registry::reset();
    dispatch(case, &mut || ralloc::arm(Some(k)));
    let n = ralloc::armed_allocs();
    let events = ralloc::disarm();
    // the operation came back although one of its allocation requests was answered with null
    if let Some(ralloc::Ev::Failed { size, align }) = events.iter().find(|e| matches!(e, ralloc::Ev::Failed { .. })) {
        println!("CARRIED-ON-AFTER-FAILED-ALLOCATION size={size} align={align}");
    }
    println!("COMPLETED allocs={n}");
    std::process::exit(0);
}

fn run_child(case: &Case) -> Result<Option<u64>, String> {
    let exe = std::env::current_exe().map_err(|e| e.to_string())?;
    let out = std::process::Command::new(exe)
        .arg("--child")
        .arg(serde_json::to_string(case).unwrap())
        .env("RUST_BACKTRACE", "0")
        .output()
        .map_err(|e| format!("cannot spawn child: {e}"))?;
    let stdout = String::from_utf8_lossy(&out.stdout);
    let stderr = String::from_utf8_lossy(&out.stderr);
    if out.status.success() {
        if let Some(l) = stdout.lines().find(|l| l.starts_with("CARRIED-ON-AFTER-FAILED-ALLOCATION")) {
            return Err(format!(
                "C16/alloc-failure-path: the operation returned normally although its allocation request ({}) was answered with null; an allocation failure must end through the standard allocation-error path",
                &l["CARRIED-ON-AFTER-FAILED-ALLOCATION ".len()..]
            ));
        }
        if let Some(l) = stdout.lines().find(|l| l.starts_with("COMPLETED allocs=")) {
            return Ok(l["COMPLETED allocs=".len()..].parse().ok());
        }
        return Err(format!("child exited 0 without completing: {stdout} {stderr}"));
    }
    use std::os::unix::process::ExitStatusExt;
    let sig = out.status.signal();
    if sig == Some(6) && stderr.contains("memory allocation of") && stderr.contains("failed") {
        // the standard allocation-error path
        return Ok(None);
    }
    Err(format!(
        "C16/alloc-failure-path: with the allocation failing the process ended with {:?} (signal {:?}) instead of the standard allocation-error path; stderr: {}",
        out.status.code(),
        sig,
        stderr.chars().take(300).collect::<String>()
    ))
}

pub fn exec(case: &Case, acc: &mut Acc) -> Result<(), String> {
    match case.fault {
        Fault::AllocFail(_) => {
            let r = run_child(case)?;
            acc.count(r.is_none(), case);
            acc.class(if r.is_none() { "allocation_failure_injected_standard_abort" } else { "allocation_failure_index_beyond_last_allocation" });
            Ok(())
        }
        _ => {
            let o = run_recorded(case)?;
            acc.count(o.allocs > 0 && o.fired, case);
            if o.allocs > 0 {
                acc.class("cases_with_allocations");
            }
            if o.fired {
                acc.class("injected_panic_fired");
            }
            let _ = o.calls;
            Ok(())
        }
    }
}

fn ops_for(n: usize) -> Vec<Op> {
    let mut v = vec![Op::BoxInvertedZip(0), Op::BoxInvertedZip(1), Op::BoxedMapNarrow, Op::ArrToVec, Op::ArrToSlice, Op::BoxNew, Op::BoxIntoSlice, Op::BoxIntoVec, Op::DefaultBoxed, Op::BoxedGenerate, Op::BoxArrRepeat, Op::BoxedMap, Op::BoxedZip, Op::BoxedFold, Op::BoxClone];
    for d in [-1i8, 0, 1] {
        if n == 0 && d < 0 {
            continue;
        }
        v.push(Op::SliceToArr(d));
        v.push(Op::SliceToBox(d));
        for spare in [0usize, 1, 5] {
            v.push(Op::VecToArr(d, spare));
            v.push(Op::VecToBox(d, spare));
        }
        for fallible in [true, false] {
            for exact in [true, false] {
                v.push(Op::BoxedCollect(d, fallible, exact));
            }
        }
    }
    for k in [0, 1, n / 2, n] {
        v.push(Op::BoxIntoIter(k));
    }
    v.sort_by_key(|o| engine::hash_of(o));
    v.dedup();
    v
}

pub fn main() {
    let args = Args::parse();
    if let Some(i) = args.extra.iter().position(|a| a == "--child") {
        let case: Case = serde_json::from_str(&args.extra[i + 1]).expect("child case");
        child_main(&case);
    }
    engine::install_hook();
    engine::maybe_replay_many::<Case>(PROP, &args, exec);
    let started = std::time::Instant::now();
    if let Some(p) = &args.replay {
        let case: Case = engine::load_replay(p);
        let mut acc = Acc::new();
        let r = engine::catch(|| exec(&case, &mut acc)).unwrap_or_else(|c| Err(format!("panic: {}", c.msg)));
        engine::finish_replay(PROP, p, r);
    }
    let mut inst = vec![];
    for &n in LENS {
        for kind in [Kind::U8, Kind::U64, Kind::Unit, Kind::ZeroLen, Kind::Tracked, Kind::A32] {
            for op in ops_for(n) {
                inst.push(Case { op, n, kind, fault: Fault::None });
            }
        }
    }
    for shape in 0..5u8 {
        for exact in [true, false] {
            inst.push(Case { op: Op::LargeCollect(shape, exact), n: 0, kind: Kind::U64, fault: Fault::None });
        }
    }
    let thorough = args.thorough();
    let acc = engine::parallel(&args, PROP, |w, workers, acc| {
        for (i, c) in inst.iter().enumerate() {
            if i % workers != w {
                continue;
            }
            // clean run, inside the recorded window
            let (calls, allocs) = match run_recorded(c) {
                Ok(o) => (o.calls, o.allocs),
                Err(m) => {
                    acc.sample(c);
                    acc.fail(c, m);
                    continue;
                }
            };
            acc.run(c, exec);
            acc.class("operation_instances");
            // a panic at every invocation of caller code
            let ks: Vec<u64> = if calls <= 40 || thorough { (0..calls).collect() } else { vec![0, 1, calls / 2, calls - 2, calls - 1] };
            for k in ks {
                let mut ck = c.clone();
                ck.fault = Fault::Panic(k);
                acc.run(&ck, exec);
            }
            // an allocation failure at every allocation the operation performs (child processes)
            let child_ok = (c.n <= 8 || (thorough && c.n <= 33)) && !matches!(c.op, Op::LargeCollect(..));
            if child_ok && allocs > 0 && !matches!(c.kind, Kind::Tracked if c.n > 3) {
                let mut k = 0u64;
                loop {
                    let mut ck = c.clone();
                    ck.fault = Fault::AllocFail(k);
                    acc.begin(&ck);
                    acc.sample(&ck);
                    match run_child(&ck) {
                        Ok(None) => {
                            acc.count(true, &ck);
                            acc.class("allocation_failure_injected_standard_abort");
                            k += 1;
                        }
                        Ok(Some(_)) => {
                            acc.count(false, &ck);
                            acc.class("allocation_failure_index_beyond_last_allocation");
                            break;
                        }
                        Err(m) => {
                            acc.fail(&ck, m);
                            break;
                        }
                    }
                    if k > 64 {
                        break;
                    }
                }
            }
        }
    });
    engine::finish(
        &args,
        started,
        acc,
        Report {
            prop: PROP,
            level: "fault_enumeration",
            rule: "operation instance = (alloc-feature operation, N in {0,1,2,3,7,8,16,33,1024}, element kind u8 / u64 / () / GenericArray<u32,U0> (zero-sized by length) / drop-tracked with heap payload / 32-byte-aligned). Operations: TryFrom<Vec> and TryFrom<Box<[T]>> (lengths N-1, N, N+1; spare capacity 0/1/5), From<GenericArray> for Vec / Box<[T]>, Box::new, into_boxed_slice, into_vec (+ push to force a realloc of the handed-over block), try_from_boxed_slice, try_from_vec, Box<GenericArray>::into_iter partially consumed, try_boxed_from_iter / boxed collect (N-1, N, N+1 items, exact or unknown hint), default_boxed, boxed generate, box_arr! repeat form, boxed map / zip / fold, direct inverted_zip / inverted_zip2 calls on a boxed operand, boxed map to a same-size lower-alignment type, Box clone; boxed collect and boxed map of arrays of 1 MiB, 1 MiB + 1 element, 1.5 MiB and 3 MiB from exact and inexact sources. \
                   For each instance: a clean run with the whole life of inputs and results inside the recorded allocator window; a panic injected at every invocation of caller code (closure, Default, Clone, next()); an allocation failure injected at every allocation the operation performs (child process, k = 0,1,... until the operation completes). \
                   Oracle: no zero-size request; every dealloc/realloc carries the size and alignment the block was requested with; no block freed twice; no block allocated by the case live once all values are gone (also after the injected panic); on allocation failure the child must die through Rust's standard path (SIGABRT with 'memory allocation of N bytes failed'); an operation that returns normally (Ok or Err) after one of its requests was answered with null is a violation. \
                   non-trivial = at least one allocation happened and a panic fired, or an allocation failure was injected; distinct = distinct (instance, fault)",
            exhaustive: false,
            assumptions: vec![
                "the recording allocator wraps System and is thread-local; allocations made by the harness for inputs are inside the window and must balance as well".into(),
                "allocation failure is only injected for N <= 8 in the quick tier".into(),
            ],
            extra: serde_json::json!({"instances": inst.len()}),
        },
    );
}

