//! C02 - borrowed views alias the array's storage; reinterpretation needs the exact length.

#[path = "tables.rs"]
#[allow(dead_code)]
mod tables;

use generic_array::sequence::GenericSequence;
use generic_array::typenum::Const;
use generic_array::{ArrayLength, GenericArray, IntoArrayLength, LengthError};
use harness::engine::{self, Acc, Args, Report};
use harness::registry::{self, Elem, Tracked};
use serde::{Deserialize, Serialize};
use std::borrow::{Borrow, BorrowMut};
use tables::DynArr;

pub const PROP: &str = "C02";

#[derive(Clone, Copy, Debug, Serialize, Deserialize, PartialEq, Eq, Hash)]
pub enum Kind {
    U8,
    U32,
    Pair,
    Unit,
    Tracked,
    Big72,
    Al32,
}

#[derive(Clone, Copy, Debug, Serialize, Deserialize, PartialEq, Eq, Hash)]
pub enum Op {
    /// all shared views, then a write through mutable view `k` at selector position, read back through all views
    Views(u8, u16),
    /// reinterpret a slice of length L: form 0 from_slice, 1 try_from_slice, 2 from_mut_slice, 3 try_from_mut_slice, 4 TryFrom<&[T]>, 5 TryFrom<&mut [T]>
    Reinterpret(usize, u8),
    /// by-value conversion: 0 from_array/into_array, 1 From/Into, 2 tuple (N in 1..=12), 3 &[T;N] -> &GenericArray, 4 &mut [T;N] -> &mut GenericArray
    ByValue(u8),
    /// zero-sized `()` elements only: a slice with more elements than isize::MAX (legal for zero-sized types) offered to the six
    /// reinterpretation forms; selector 0..4 = isize::MAX, isize::MAX + 1, usize::MAX - 1, usize::MAX; 4..12 = N + 2^k (agreeing with N in the low bits)
    ReinterpretHugeUnit(u8, u8),
}

#[derive(Clone, Debug, Serialize, Deserialize, PartialEq, Eq, Hash)]
pub struct Case {
    pub n: usize,
    pub kind: Kind,
    pub op: Op,
    pub salt: u32,
}

macro_rules! lat_const {
    ($n:expr, $N:ident, $K:ident, $body:expr) => {
        lat_const!(@go $n, $N, $K, $body, [0 U0, 1 U1, 2 U2, 3 U3, 4 U4, 5 U5, 6 U6, 7 U7, 8 U8, 9 U9, 10 U10, 11 U11, 12 U12,
            15 U15, 16 U16, 17 U17, 31 U31, 32 U32, 33 U33, 63 U63, 64 U64, 65 U65, 100 U100, 127 U127, 128 U128, 129 U129,
            255 U255, 256 U256, 257 U257, 511 U511, 512 U512, 1000 U1000, 1023 U1023, 1024 U1024, 2048 U2048, 4096 U4096])
    };
    (@go $n:expr, $N:ident, $K:ident, $body:expr, [$($num:literal $ty:ident),*]) => {
        match $n {
            $( $num => { #[allow(dead_code)] type $N = generic_array::typenum::$ty; #[allow(dead_code)] const $K: usize = $num; $body } )*
            other => panic!("length {} not in lattice", other),
        }
    };
}

fn vals<T: Elem>(s: &[T]) -> Vec<u32> {
    s.iter().map(|x| x.get()).collect()
}

fn check_view<T: Elem>(name: &str, base: usize, n: usize, want: &[u32], v: &[T]) -> Result<(), String> {
    if v.as_ptr() as usize != base {
        return Err(format!("{name}: view starts {} bytes away from the array's address", (v.as_ptr() as usize).wrapping_sub(base) as isize));
    }
    if v.len() != n {
        return Err(format!("{name}: view has {} elements, N = {n}", v.len()));
    }
    if vals(v) != want {
        return Err(format!("{name}: elements are not in index order"));
    }
    Ok(())
}

fn views_case<T: Elem, N: ArrayLength, const K: usize>(k: u8, sel: u16, salt: u32) -> Result<(), String>
where
    Const<K>: IntoArrayLength<ArrayLength = N>,
{
    let n = N::USIZE;
    let mut a: GenericArray<T, N> = GenericArray::generate(|i| T::mk(salt.wrapping_add(i as u32 * 3)));
    let mut want: Vec<u32> = (0..n).map(|i| T::norm(salt.wrapping_add(i as u32 * 3))).collect();
    let base = &a as *const _ as usize;
    if core::mem::size_of::<T>() != 0 && core::mem::size_of_val(&a) != n * core::mem::size_of::<T>() {
        return Err("array size is not N * size_of::<T>()".into());
    }
    let all_shared = |a: &GenericArray<T, N>, want: &[u32]| -> Result<(), String> {
        check_view("as_slice", base, n, want, a.as_slice())?;
        check_view("Deref", base, n, want, &a[..])?;
        check_view("AsRef<[T]>", base, n, want, AsRef::<[T]>::as_ref(a))?;
        check_view("Borrow<[T]>", base, n, want, Borrow::<[T]>::borrow(a))?;
        check_view("AsRef<[T; N]>", base, n, want, &AsRef::<[T; K]>::as_ref(a)[..])?;
        let it = a.iter();
        check_view("iter()", base, n, want, it.as_slice())?;
        let it = (&*a).into_iter();
        check_view("&GenericArray::into_iter", base, n, want, it.as_slice())?;
        let it: std::slice::Iter<T> = IntoIterator::into_iter(a);
        check_view("IntoIterator for &GenericArray", base, n, want, it.as_slice())?;
        let got: Vec<u32> = a.iter().map(|x| x.get()).collect();
        if got != want {
            return Err("by-reference iteration is not in index order".into());
        }
        Ok(())
    };
    all_shared(&a, &want)?;
    // the mutable views themselves
    check_view("as_mut_slice", base, n, &want, a.as_mut_slice())?;
    check_view("DerefMut", base, n, &want, &mut a[..])?;
    check_view("AsMut<[T]>", base, n, &want, AsMut::<[T]>::as_mut(&mut a))?;
    check_view("BorrowMut<[T]>", base, n, &want, BorrowMut::<[T]>::borrow_mut(&mut a))?;
    check_view("AsMut<[T; N]>", base, n, &want, &AsMut::<[T; K]>::as_mut(&mut a)[..])?;
    check_view("iter_mut()", base, n, &want, a.iter_mut().into_slice())?;
    {
        let it: std::slice::IterMut<T> = IntoIterator::into_iter(&mut a);
        check_view("IntoIterator for &mut GenericArray", base, n, &want, it.into_slice())?;
    }
    if n > 0 {
        let i = (sel as usize * n) >> 16;
        let v = salt ^ 0x00C0_FFEE ^ (k as u32) << 8;
        let x = T::mk(v);
        match k % 7 {
            0 => a.as_mut_slice()[i] = x,
            1 => a[i] = x,
            2 => AsMut::<[T]>::as_mut(&mut a)[i] = x,
            3 => BorrowMut::<[T]>::borrow_mut(&mut a)[i] = x,
            4 => AsMut::<[T; K]>::as_mut(&mut a)[i] = x,
            5 => *a.iter_mut().nth(i).unwrap() = x,
            _ => *(&mut a).into_iter().nth(i).unwrap() = x,
        }
        want[i] = T::norm(v);
        all_shared(&a, &want)?;
        check_view("as_mut_slice after write", base, n, &want, a.as_mut_slice())?;
    }
    Ok(())
}

fn huge_unit_case<N: ArrayLength>(sel: u8, form: u8) -> Result<(), String> {
    let n = N::USIZE;
    // 0..4: beyond isize::MAX; 4..: lengths that agree with N in their low 8 / 16 / 31 / 32 / 33 / 48 / 63 bits (a length
    // comparison done in a narrower integer type accepts them)
    let l = [
        isize::MAX as usize,
        isize::MAX as usize + 1,
        usize::MAX - 1,
        usize::MAX,
        n + (1 << 8),
        n + (1 << 16),
        n + (1 << 31),
        n + (1 << 32),
        n + (3 << 32),
        n + (1 << 33),
        n + (1 << 48),
        n + (1 << 63),
    ][sel as usize % 12];
    // a slice of zero-sized elements occupies no memory whatever its length
    let base = core::ptr::NonNull::<()>::dangling().as_ptr();
    let src: &mut [()] = unsafe { core::slice::from_raw_parts_mut(base, l) };
    let outcome: Result<Result<usize, LengthError>, String> = match form {
        0 => engine::catch(|| GenericArray::<(), N>::from_slice(src) as *const _ as usize).map(Ok).map_err(|c| c.msg),
        1 => engine::catch(|| GenericArray::<(), N>::try_from_slice(src).map(|r| r as *const _ as usize)).map_err(|c| format!("try_from_slice panicked: {}", c.msg)),
        2 => engine::catch(|| GenericArray::<(), N>::from_mut_slice(src) as *mut _ as usize).map(Ok).map_err(|c| c.msg),
        3 => engine::catch(|| GenericArray::<(), N>::try_from_mut_slice(src).map(|r| r as *mut _ as usize)).map_err(|c| format!("try_from_mut_slice panicked: {}", c.msg)),
        4 => engine::catch(|| <&GenericArray<(), N>>::try_from(&src[..]).map(|r| r as *const _ as usize)).map_err(|c| format!("TryFrom<&[T]> panicked: {}", c.msg)),
        _ => engine::catch(|| <&mut GenericArray<(), N>>::try_from(&mut src[..]).map(|r| r as *mut _ as usize)).map_err(|c| format!("TryFrom<&mut [T]> panicked: {}", c.msg)),
    };
    let name = ["from_slice", "try_from_slice", "from_mut_slice", "try_from_mut_slice", "TryFrom<&[T]>", "TryFrom<&mut [T]>"][form as usize % 6];
    match outcome {
        Ok(Ok(_)) => Err(format!("{name}: a slice of {l} zero-sized elements was reinterpreted as a GenericArray of length {n}")),
        Ok(Err(LengthError)) => Ok(()),
        Err(msg) if form == 0 || form == 2 => {
            let _ = msg;
            Ok(())
        }
        Err(msg) => Err(format!("{name} with L = {l}, N = {n}: {msg} (a fallible form must return LengthError)")),
    }
}

fn reinterpret_case<T: Elem, N: ArrayLength>(l: usize, form: u8, salt: u32) -> Result<(), String> {
    let n = N::USIZE;
    let mut src: Vec<T> = (0..l).map(|i| T::mk(salt.wrapping_add(i as u32))).collect();
    let want = vals(&src);
    let p = src.as_ptr() as usize;
    let exact = l == n;
    // a wrongly accepted reference is never dereferenced: only its address is inspected
    let outcome: Result<Result<usize, LengthError>, String> = match form {
        0 => engine::catch(|| GenericArray::<T, N>::from_slice(&src) as *const _ as usize).map(Ok).map_err(|c| c.msg),
        1 => Ok(GenericArray::<T, N>::try_from_slice(&src).map(|r| r as *const _ as usize)),
        2 => engine::catch(|| GenericArray::<T, N>::from_mut_slice(&mut src) as *mut _ as usize).map(Ok).map_err(|c| c.msg),
        3 => engine::catch(|| GenericArray::<T, N>::try_from_mut_slice(&mut src).map(|r| r as *mut _ as usize)).map_err(|c| format!("try_from_mut_slice panicked: {}", c.msg)).and_then(|r| Ok(r)),
        4 => Ok(<&GenericArray<T, N>>::try_from(&src[..]).map(|r| r as *const _ as usize)),
        _ => engine::catch(|| <&mut GenericArray<T, N>>::try_from(&mut src[..]).map(|r| r as *mut _ as usize)).map_err(|c| format!("TryFrom<&mut [T]> panicked: {}", c.msg)),
    };
    let name = ["from_slice", "try_from_slice", "from_mut_slice", "try_from_mut_slice", "TryFrom<&[T]>", "TryFrom<&mut [T]>"][form as usize % 6];
    let panicking = form == 0 || form == 2;
    match outcome {
        Ok(Ok(addr)) => {
            if !exact {
                return Err(format!("{name}: a slice of length {l} was reinterpreted as a GenericArray of length {n}"));
            }
            if addr != p {
                return Err(format!("{name}: the result does not alias the source slice (copy?)"));
            }
        }
        Ok(Err(LengthError)) => {
            if exact {
                return Err(format!("{name}: LengthError for a slice of exactly N = {n} elements"));
            }
        }
        Err(msg) => {
            if !panicking {
                return Err(format!("{name} with L = {l}, N = {n}: {msg} (a fallible form must return LengthError)"));
            }
            if exact {
                return Err(format!("{name} panicked for a slice of exactly N = {n} elements: {msg}"));
            }
        }
    }
    if exact {
        // now dereference: contents in order, writes through the mutable forms land in the source
        match form {
            0 | 1 | 4 => {
                let r: &GenericArray<T, N> = GenericArray::from_slice(&src);
                if vals(r) != want {
                    return Err(format!("{name}: contents differ from the source slice"));
                }
            }
            _ => {
                let r: &mut GenericArray<T, N> = match form {
                    2 => GenericArray::from_mut_slice(&mut src),
                    3 => GenericArray::try_from_mut_slice(&mut src).map_err(|_| "unexpected LengthError".to_string())?,
                    _ => <&mut GenericArray<T, N>>::try_from(&mut src[..]).map_err(|_| "unexpected LengthError".to_string())?,
                };
                if n > 0 {
                    r[n - 1] = T::mk(salt ^ 0xBEEF);
                }
                if n > 0 && src[n - 1].get() != T::norm(salt ^ 0xBEEF) {
                    return Err(format!("{name}: a write through the result is not seen in the source slice"));
                }
            }
        }
    }
    Ok(())
}

fn by_value_case<T: Elem, N: ArrayLength, const K: usize>(via: u8, salt: u32) -> Result<(), String>
where
    Const<K>: IntoArrayLength<ArrayLength = N>,
{
    let n = N::USIZE;
    let mk = |i: usize| T::mk(salt.wrapping_add(i as u32 * 11));
    let want: Vec<u32> = (0..n).map(|i| T::norm(salt.wrapping_add(i as u32 * 11))).collect();
    match via {
        0 => {
            let native: [T; K] = core::array::from_fn(mk);
            let ids: Vec<Option<u32>> = native.iter().map(|x| x.ident()).collect();
            let a: GenericArray<T, N> = GenericArray::from_array(native);
            if vals(&a) != want || a.iter().map(|x| x.ident()).collect::<Vec<_>>() != ids {
                return Err("from_array does not keep every element at its position".into());
            }
            let back: [T; K] = a.into_array();
            if vals(&back) != want || back.iter().map(|x| x.ident()).collect::<Vec<_>>() != ids {
                return Err("into_array does not keep every element at its position".into());
            }
        }
        1 => {
            let native: [T; K] = core::array::from_fn(mk);
            let a: GenericArray<T, N> = native.into();
            if vals(&a) != want {
                return Err("From<[T; N]> does not keep every element at its position".into());
            }
            let back: [T; K] = a.into();
            if vals(&back) != want {
                return Err("Into<[T; N]> does not keep every element at its position".into());
            }
        }
        3 => {
            let native: [T; K] = core::array::from_fn(mk);
            let r: &GenericArray<T, N> = (&native).into();
            if r as *const _ as usize != native.as_ptr() as usize || r.len() != n || vals(r) != want {
                return Err("From<&[T; N]> for &GenericArray does not alias the native array in order".into());
            }
        }
        _ => {
            let mut native: [T; K] = core::array::from_fn(mk);
            let p = native.as_ptr() as usize;
            {
                let r: &mut GenericArray<T, N> = (&mut native).into();
                if r as *mut _ as usize != p || r.len() != n || vals(r) != want {
                    return Err("From<&mut [T; N]> for &mut GenericArray does not alias the native array in order".into());
                }
                if n > 0 {
                    r[0] = T::mk(salt ^ 0xF00D);
                }
            }
            if n > 0 && native[0].get() != T::norm(salt ^ 0xF00D) {
                return Err("a write through From<&mut [T; N]> is not seen in the native array".into());
            }
        }
    }
    Ok(())
}

fn tuple_case<T: Elem>(n: usize, salt: u32) -> Result<(), String> {
    let want: Vec<u32> = (0..n).map(|i| T::norm(salt.wrapping_add(i as u32 * 11))).collect();
    let a = DynArr::<T>::from_tuple(n, |i| T::mk(salt.wrapping_add(i as u32 * 11)));
    if vals(a.as_slice()) != want {
        return Err(format!("From<tuple of {n}> does not keep every field at its position"));
    }
    let mut seen = None;
    let b = a.tuple_roundtrip(&mut |fields: &[&T]| seen = Some(fields.iter().map(|x| x.get()).collect::<Vec<u32>>()));
    if seen.as_deref() != Some(&want[..]) {
        return Err(format!("Into<tuple of {n}> does not keep every element at its position"));
    }
    if vals(b.as_slice()) != want {
        return Err("tuple round trip changed the contents".into());
    }
    Ok(())
}

fn exec_typed<T: Elem>(case: &Case, acc: &mut Acc) -> Result<(), String> {
    registry::reset();
    let salt = case.salt;
    let mut nontrivial = false;
    match case.op {
        Op::Views(k, sel) => {
            nontrivial = case.n > 0;
            lat_const!(case.n, N, K, views_case::<T, N, K>(k, sel, salt))?
        }
        Op::Reinterpret(l, form) => {
            nontrivial = l != case.n;
            acc.class(if l < case.n { "L_lt_N" } else if l == case.n { "L_eq_N" } else { "L_gt_N" });
            lat_const!(case.n, N, K, reinterpret_case::<T, N>(l, form, salt))?
        }
        Op::ReinterpretHugeUnit(sel, form) => {
            nontrivial = true;
            acc.class("L_beyond_isize_MAX_zero_sized");
            lat_const!(case.n, N, K, huge_unit_case::<N>(sel, form))?
        }
        Op::ByValue(2) => tuple_case::<T>(case.n, salt)?,
        Op::ByValue(via) => lat_const!(case.n, N, K, by_value_case::<T, N, K>(via, salt))?,
    }
    engine::end_case(false)?;
    acc.count(nontrivial, case);
    Ok(())
}

pub fn exec(case: &Case, acc: &mut Acc) -> Result<(), String> {
    match case.kind {
        Kind::U8 => exec_typed::<u8>(case, acc),
        Kind::U32 => exec_typed::<u32>(case, acc),
        Kind::Pair => exec_typed::<(u8, u16)>(case, acc),
        Kind::Unit => exec_typed::<()>(case, acc),
        Kind::Tracked => exec_typed::<Tracked>(case, acc),
        Kind::Big72 => exec_typed::<harness::registry::Big72>(case, acc),
        Kind::Al32 => exec_typed::<harness::registry::Al32>(case, acc),
    }
}

pub fn main() {
    let args = Args::parse();
    engine::install_hook();
    engine::maybe_replay_many::<Case>(PROP, &args, exec);
    let started = std::time::Instant::now();
    if let Some(p) = &args.replay {
        let case: Case = engine::load_replay(p);
        let mut acc = Acc::new();
        let r = engine::catch(|| exec(&case, &mut acc)).unwrap_or_else(|c| Err(format!("panic: {}", c.msg)));
        engine::finish_replay(PROP, p, r);
    }
    let draws = args.scale(4, 5);
    let mut g = vec![];
    let mut x = args.seed.wrapping_mul(0x9E37_79B9_7F4A_7C15) | 1;
    let mut rnd = move || {
        x ^= x << 13;
        x ^= x >> 7;
        x ^= x << 17;
        x >> 16
    };
    for kind in [Kind::U8, Kind::U32, Kind::Pair, Kind::Unit, Kind::Tracked, Kind::Big72, Kind::Al32] {
        for &n in harness::lens::LAT {
            for _ in 0..draws {
                for k in 0..7u8 {
                    g.push(Case { n, kind, op: Op::Views(k, rnd() as u16), salt: rnd() as u32 & 0xfffff });
                }
                let mut ls = vec![0, 1, n.saturating_sub(1), n, n + 1, n + 2, 2 * n, 2 * n + 1, (rnd() as usize) % (3 * n + 4)];
                ls.sort();
                ls.dedup();
                for l in ls {
                    if kind == Kind::Tracked && l > 2100 {
                        continue;
                    }
                    for form in 0..6u8 {
                        g.push(Case { n, kind, op: Op::Reinterpret(l, form), salt: rnd() as u32 & 0xfffff });
                    }
                }
                for via in [0u8, 1, 3, 4] {
                    g.push(Case { n, kind, op: Op::ByValue(via), salt: rnd() as u32 & 0xfffff });
                }
                if kind == Kind::Unit {
                    for sel in 0..12u8 {
                        for form in 0..6u8 {
                            g.push(Case { n, kind, op: Op::ReinterpretHugeUnit(sel, form), salt: 0 });
                        }
                    }
                }
                if (1..=12).contains(&n) {
                    g.push(Case { n, kind, op: Op::ByValue(2), salt: rnd() as u32 & 0xfffff });
                }
            }
        }
    }
    if args.dump.is_some() {
        // cases dumped for the Miri stage: a directed subset in which every view / conversion form is equally frequent (the
        // full grid is dominated by length-mismatch attempts with long sources)
        let mut seen = std::collections::HashSet::new();
        g.retain(|c| {
            [1usize, 2, 3, 5, 8, 16].contains(&c.n)
                && matches!(c.kind, Kind::U8 | Kind::U32 | Kind::Tracked | Kind::Al32)
                && match c.op {
                    // too-short sources matter to Miri as well: a checked form that manufactures the reference before it looks
                    // at the length creates a reference past the end of the source's allocation (the Vec holds exactly l items)
                    Op::Reinterpret(l, _) => {
                        [1usize, 3, 8].contains(&c.n) && matches!(c.kind, Kind::U32 | Kind::Tracked) && (l == c.n || l == c.n + 1 || l + 1 == c.n || (l == 0 && c.n <= 3))
                    }
                    Op::Views(..) => c.n != 2 && c.n != 5,
                    _ => true,
                }
                && seen.insert((c.n, c.kind, match c.op {
                    Op::Views(k, _) => (0u8, k as usize, 0u8),
                    Op::Reinterpret(l, f) => (1, l, f),
                    Op::ByValue(v) => (2, 0, v),
                    Op::ReinterpretHugeUnit(s, f) => (3, s as usize, f),
                }))
        });
    }
    let acc = engine::parallel(&args, PROP, |w, workers, acc| {
        for (i, c) in g.iter().enumerate() {
            if i % workers == w {
                acc.run(c, exec);
            }
        }
    });
    engine::finish(
        &args,
        started,
        acc,
        Report {
            prop: PROP,
            level: "exploration",
            rule: "case = (N in the 36-length lattice (to 4096), element kind u8/u32/(u8,u16)/()/drop-tracked/72-byte [u64;9]/32-byte-aligned, operation, seeded values). Views: as_slice, Deref, AsRef/Borrow<[T]>, AsRef<[T;N]>, iter(), &GenericArray::into_iter and the seven mutable counterparts must each start at the array's address, have N elements in index order; a write through each of the 7 mutable views is read back through all others. \
                   Reinterpretation: slices of length L in {0, 1, N-1, N, N+1, N+2, 2N, 2N+1, random} (and, for zero-sized elements, isize::MAX, isize::MAX+1, usize::MAX-1, usize::MAX and N + 2^k for k in {8, 16, 31, 32, 33, 48, 63}, N + 3*2^32) through from_slice, try_from_slice, from_mut_slice, try_from_mut_slice, TryFrom<&[T]>, TryFrom<&mut [T]>: panic / LengthError iff L != N, fallible forms never panic, success aliases the source (pointer equality; a wrongly accepted reference is never dereferenced). \
                   By value: from_array/into_array, From/Into, &[T;N] and &mut [T;N] conversions, all 12 tuple arities keep position i at i. \
                   non-trivial = L != N reinterpretation attempts and write-through cases with N > 0; distinct = distinct case tuples",
            exhaustive: false,
            assumptions: vec![],
            extra: serde_json::json!({}),
        },
    );
}
