//! C19 - zeroize and const-default reach every one of the N elements (run-time half; const half is gen/c19.py).

use const_default::ConstDefault;
use generic_array::typenum::{U2, U3};
use generic_array::{ArrayLength, GenericArray};
use harness::engine::{self, Acc, Args, Report};
use harness::len_match;
use serde::{Deserialize, Serialize};
use std::fmt::Debug;
use zeroize::Zeroize;

pub const PROP: &str = "C19";

/// zero, default and "untouched" are pairwise distinguishable per field
#[derive(Clone, Copy, Debug, PartialEq)]
pub struct P {
    a: u8,
    b: u16,
}
impl ConstDefault for P {
    const DEFAULT: P = P { a: 0xAB, b: 0xCDEF };
}
impl Default for P {
    fn default() -> P {
        P::DEFAULT
    }
}
impl Zeroize for P {
    fn zeroize(&mut self) {
        self.a.zeroize();
        self.b.zeroize();
    }
}

/// a type whose zeroized value is not the all-zero bit pattern
#[derive(Clone, Copy, Debug, PartialEq)]
pub struct Sentinel(u32);
impl Zeroize for Sentinel {
    fn zeroize(&mut self) {
        self.0 = 0x5A5A_5A5A;
    }
}
impl ConstDefault for Sentinel {
    const DEFAULT: Sentinel = Sentinel(0x0BAD_CAFE);
}
impl Default for Sentinel {
    fn default() -> Self {
        Sentinel::DEFAULT
    }
}

/// two machine words wide, word aligned, no drop glue; zero, default and prior contents distinguishable per field
#[derive(Clone, Copy, Debug, PartialEq)]
pub struct Wide {
    lo: u64,
    hi: u64,
}
impl ConstDefault for Wide {
    const DEFAULT: Wide = Wide { lo: 0x1111_2222_3333_4444, hi: 0x5555_6666_7777_8888 };
}
impl Default for Wide {
    fn default() -> Wide {
        Wide::DEFAULT
    }
}
impl Zeroize for Wide {
    fn zeroize(&mut self) {
        self.lo.zeroize();
        self.hi.zeroize();
    }
}

thread_local! { static ZEROIZE_CALLS: std::cell::Cell<u64> = const { std::cell::Cell::new(0) }; }
/// zeroize() wipes the secret and keeps the id (what `#[zeroize(skip)]` generates): the zeroized value differs per element;
/// the impl also counts its calls
#[derive(Clone, Copy, Debug, PartialEq)]
pub struct Keep {
    id: u32,
    secret: u32,
}
impl Zeroize for Keep {
    fn zeroize(&mut self) {
        ZEROIZE_CALLS.with(|c| c.set(c.get() + 1));
        self.secret.zeroize();
    }
}
/// one byte whose cleared marker is not 0x00
#[derive(Clone, Copy, Debug, PartialEq)]
pub struct Marker(u8);
impl Zeroize for Marker {
    fn zeroize(&mut self) {
        self.0 = 0xA5;
    }
}

#[derive(Clone, Copy, Debug, Serialize, Deserialize, PartialEq, Eq, Hash)]
pub enum Kind {
    U8,
    U64,
    Arr3,
    Nested,
    P,
    Sentinel,
    NonZero,
    /// 16-byte struct of two u64
    Wide,
    /// nested GenericArray<u64, U2>
    NestedWide,
    /// [u64; 3], 24 bytes
    Arr24,
    U128,
    U16,
    /// per-element zeroized value (an id field is kept), zeroize calls counted
    Keep,
    /// one-byte types whose zeroized byte is not 0x00
    OptBool,
    NonZeroU8,
    Marker,
}

#[derive(Clone, Copy, Debug, Serialize, Deserialize, PartialEq, Eq, Hash)]
pub enum Op {
    Zeroize,
    ConstDefault,
}

#[derive(Clone, Debug, Serialize, Deserialize, PartialEq, Eq, Hash)]
pub struct Case {
    pub n: usize,
    pub kind: Kind,
    pub op: Op,
    pub seed: u64,
}

pub const LENS: &[usize] = &[0, 1, 2, 3, 4, 5, 6, 7, 8, 9, 10, 11, 12, 13, 14, 15, 16, 17, 18, 19, 20, 21, 22, 23, 24, 25, 26, 27, 28, 29, 30, 31, 32, 33, 34, 35, 36, 37, 38, 39, 40, 41, 42, 43, 44, 45, 46, 47, 48, 49, 50, 51, 52, 53, 54, 55, 56, 57, 58, 59, 60, 61, 62, 63, 64, 100, 127, 128, 255, 256, 1000, 1023, 1024, 2047, 2048, 3000, 3500, 4095, 4096, 4097, 5000, 6000, 8192, 10000, 12000];

macro_rules! lens {
    ($n:expr, $N:ident, $body:expr) => {
        len_match!($n, $N, $body, [0: U0, 1: U1, 2: U2, 3: U3, 4: U4, 5: U5, 6: U6, 7: U7, 8: U8, 9: U9, 10: U10, 11: U11, 12: U12, 13: U13, 14: U14, 15: U15, 16: U16, 17: U17, 18: U18, 19: U19, 20: U20, 21: U21, 22: U22, 23: U23, 24: U24, 25: U25, 26: U26, 27: U27, 28: U28, 29: U29, 30: U30, 31: U31, 32: U32, 33: U33, 34: U34, 35: U35, 36: U36, 37: U37, 38: U38, 39: U39, 40: U40, 41: U41, 42: U42, 43: U43, 44: U44, 45: U45, 46: U46, 47: U47, 48: U48, 49: U49, 50: U50, 51: U51, 52: U52, 53: U53, 54: U54, 55: U55, 56: U56, 57: U57, 58: U58, 59: U59, 60: U60, 61: U61, 62: U62, 63: U63, 64: U64, 100: U100, 127: U127, 128: U128, 255: U255, 256: U256, 1000: U1000, 1023: U1023, 1024: U1024, 2047: U2047, 2048: U2048, 3000: U3000x, 3500: U3500x, 4095: U4095, 4096: U4096, 4097: U4097x, 5000: U5000x, 6000: U6000x, 8192: U8192, 10000: U10000, 12000: U12000x])
    };
}

fn zeroize_case<T: Zeroize + Clone + PartialEq + Debug, N: ArrayLength>(prior: impl Fn(u64) -> T, zeroed: T, seed: u64) -> Result<(), String> {
    zeroize_case_with::<T, N>(prior, move |_| zeroed.clone(), seed)
}

/// the element-wise reference: what each prior element looks like after its own `zeroize()`
fn zeroize_case_with<T: Zeroize + Clone + PartialEq + Debug, N: ArrayLength>(prior: impl Fn(u64) -> T, zeroed_of: impl Fn(&T) -> T, seed: u64) -> Result<(), String> {
    let n = N::USIZE;
    let mut x = seed | 1;
    let mut arr: GenericArray<T, N> = GenericArray::from_iter((0..n).map(|_| {
        x ^= x << 13;
        x ^= x >> 7;
        x ^= x << 17;
        prior(x)
    }));
    let want: Vec<T> = arr.iter().map(&zeroed_of).collect();
    arr.zeroize();
    for (i, (e, w)) in arr.iter().zip(&want).enumerate() {
        if e != w {
            return Err(format!("after zeroize() element {i} of {n} is {:?}, zeroizing that element alone gives {:?}", e, w));
        }
    }
    let zeroed = match want.first() {
        Some(w) if want.iter().all(|v| v == w) => w.clone(),
        _ => return Ok(()),
    };
    // read back through several paths, not only the slice view the implementation uses
    for (i, e) in arr.iter().enumerate() {
        if *e != zeroed {
            return Err(format!("after zeroize() element {i} of {n} is {:?}, its zeroized value is {:?}", e, zeroed));
        }
    }
    for i in 0..n {
        if arr[i] != zeroed {
            return Err(format!("after zeroize() arr[{i}] is {:?}", arr[i]));
        }
    }
    let by_value: Vec<T> = arr.clone().into_iter().collect();
    if by_value.len() != n || by_value.iter().any(|e| *e != zeroed) {
        return Err("after zeroize() by-value iteration sees a non-zeroized element".into());
    }
    Ok(())
}

fn const_default_case<T: ConstDefault + PartialEq + Debug + Clone, N: ArrayLength>(plain_default: Option<T>) -> Result<(), String>
where
    GenericArray<T, N>: ConstDefault,
{
    let n = N::USIZE;
    let a: GenericArray<T, N> = GenericArray::const_default();
    let b: GenericArray<T, N> = <GenericArray<T, N> as ConstDefault>::DEFAULT;
    for (name, arr) in [("const_default()", &a), ("DEFAULT", &b)] {
        if arr.len() != n || arr.as_slice().len() != n {
            return Err(format!("{name} has length {}", arr.len()));
        }
        for (i, e) in arr.iter().enumerate() {
            if *e != T::DEFAULT {
                return Err(format!("{name}: element {i} of {n} is {:?}, T::DEFAULT is {:?} (a slot skipped or counted twice)", e, T::DEFAULT));
            }
        }
        let by_value: Vec<T> = arr.clone().into_iter().collect();
        if by_value.len() != n || by_value.iter().any(|e| *e != T::DEFAULT) {
            return Err(format!("{name}: by-value iteration sees an element different from T::DEFAULT"));
        }
    }
    if let Some(d) = plain_default {
        if a.iter().any(|e| *e != d) {
            return Err("const_default() differs from Default::default()".into());
        }
    }
    Ok(())
}

fn exec_n<N: ArrayLength>(case: &Case) -> Result<(), String>
where
    GenericArray<u8, N>: ConstDefault,
    GenericArray<u64, N>: ConstDefault,
    GenericArray<[u8; 3], N>: ConstDefault,
    GenericArray<GenericArray<u8, U3>, N>: ConstDefault,
    GenericArray<P, N>: ConstDefault,
    GenericArray<Sentinel, N>: ConstDefault,
    GenericArray<Wide, N>: ConstDefault,
    GenericArray<GenericArray<u64, U2>, N>: ConstDefault,
    GenericArray<[u64; 3], N>: ConstDefault,
    GenericArray<u128, N>: ConstDefault,
    GenericArray<u16, N>: ConstDefault,
{
    let s = case.seed;
    match (case.op, case.kind) {
        (Op::Zeroize, Kind::U8) => zeroize_case::<u8, N>(|x| (x >> 8) as u8 | 1, 0, s),
        (Op::Zeroize, Kind::U64) => zeroize_case::<u64, N>(|x| x | 1, 0, s),
        (Op::Zeroize, Kind::Arr3) => zeroize_case::<[u8; 3], N>(|x| [(x >> 8) as u8 | 1, (x >> 16) as u8 | 1, (x >> 24) as u8 | 1], [0; 3], s),
        (Op::Zeroize, Kind::Nested) => zeroize_case::<GenericArray<u8, U3>, N>(|x| GenericArray::from_array([(x >> 8) as u8 | 1, (x >> 16) as u8 | 1, (x >> 24) as u8 | 1]), GenericArray::from_array([0; 3]), s),
        (Op::Zeroize, Kind::P) => zeroize_case::<P, N>(|x| P { a: (x >> 8) as u8 | 1, b: (x >> 16) as u16 | 1 }, P { a: 0, b: 0 }, s),
        (Op::Zeroize, Kind::Sentinel) => zeroize_case::<Sentinel, N>(|x| Sentinel((x >> 8) as u32 & 0xffff), Sentinel(0x5A5A_5A5A), s),
        (Op::Zeroize, Kind::NonZero) => zeroize_case::<core::num::NonZeroU32, N>(|x| core::num::NonZeroU32::new(((x >> 8) as u32 & 0xffff) + 2).unwrap(), core::num::NonZeroU32::new(1).unwrap(), s),
        (Op::ConstDefault, Kind::U8) => const_default_case::<u8, N>(Some(0)),
        (Op::ConstDefault, Kind::U64) => const_default_case::<u64, N>(Some(0)),
        (Op::ConstDefault, Kind::Arr3) => const_default_case::<[u8; 3], N>(Some([0; 3])),
        (Op::ConstDefault, Kind::Nested) => const_default_case::<GenericArray<u8, U3>, N>(Some(Default::default())),
        (Op::ConstDefault, Kind::P) => const_default_case::<P, N>(Some(P::default())),
        (Op::ConstDefault, Kind::Sentinel) => const_default_case::<Sentinel, N>(Some(Sentinel::default())),
        (Op::ConstDefault, Kind::NonZero) => Ok(()),
        (Op::Zeroize, Kind::Wide) => zeroize_case::<Wide, N>(|x| Wide { lo: x | 1, hi: x.rotate_left(17) | 1 }, Wide { lo: 0, hi: 0 }, s),
        (Op::Zeroize, Kind::NestedWide) => zeroize_case::<GenericArray<u64, U2>, N>(|x| GenericArray::from_array([x | 1, x.rotate_left(17) | 1]), GenericArray::from_array([0; 2]), s),
        (Op::Zeroize, Kind::Arr24) => zeroize_case::<[u64; 3], N>(|x| [x | 1, x.rotate_left(17) | 1, x.rotate_left(31) | 1], [0; 3], s),
        (Op::Zeroize, Kind::U128) => zeroize_case::<u128, N>(|x| ((x as u128) << 64) | (x.rotate_left(9) as u128) | 1 | (1 << 100), 0, s),
        (Op::Zeroize, Kind::U16) => zeroize_case::<u16, N>(|x| (x >> 8) as u16 | 0x101, 0, s),
        (Op::Zeroize, Kind::Keep) => {
            let before = ZEROIZE_CALLS.with(|c| c.get());
            zeroize_case_with::<Keep, N>(|x| Keep { id: (x >> 40) as u32, secret: (x >> 8) as u32 | 1 }, |k| Keep { id: k.id, secret: 0 }, s)?;
            let calls = ZEROIZE_CALLS.with(|c| c.get()) - before;
            if calls != N::USIZE as u64 {
                return Err(format!("zeroize() of {} elements called the element's zeroize {} times", N::USIZE, calls));
            }
            Ok(())
        }
        (Op::Zeroize, Kind::OptBool) => zeroize_case::<Option<bool>, N>(|x| Some(x & 256 != 0), None, s),
        (Op::Zeroize, Kind::NonZeroU8) => zeroize_case::<core::num::NonZeroU8, N>(|x| core::num::NonZeroU8::new(((x >> 8) as u8) | 2).unwrap(), core::num::NonZeroU8::new(1).unwrap(), s),
        (Op::Zeroize, Kind::Marker) => zeroize_case::<Marker, N>(|x| Marker((x >> 8) as u8 & 0x7f), Marker(0xA5), s),
        (Op::ConstDefault, Kind::Keep | Kind::OptBool | Kind::NonZeroU8 | Kind::Marker) => Ok(()),
        (Op::ConstDefault, Kind::Wide) => const_default_case::<Wide, N>(Some(Wide::default())),
        (Op::ConstDefault, Kind::NestedWide) => const_default_case::<GenericArray<u64, U2>, N>(Some(Default::default())),
        (Op::ConstDefault, Kind::Arr24) => const_default_case::<[u64; 3], N>(Some([0; 3])),
        (Op::ConstDefault, Kind::U128) => const_default_case::<u128, N>(Some(0)),
        (Op::ConstDefault, Kind::U16) => const_default_case::<u16, N>(Some(0)),
    }
}

pub fn exec(case: &Case, acc: &mut Acc) -> Result<(), String> {
    lens!(case.n, N, exec_n::<N>(case))?;
    acc.count(case.n >= 2 && !matches!(case.kind, Kind::U8), case);
    acc.class(match case.op {
        Op::Zeroize => "zeroize",
        Op::ConstDefault => "const_default",
    });
    Ok(())
}

pub fn main() {
    let args = Args::parse();
    engine::install_hook();
    engine::maybe_replay_many::<Case>(PROP, &args, exec);
    let started = std::time::Instant::now();
    if let Some(p) = &args.replay {
        let case: Case = engine::load_replay(p);
        let mut acc = Acc::new();
        let r = engine::catch(|| exec(&case, &mut acc)).unwrap_or_else(|c| Err(format!("panic: {}", c.msg)));
        engine::finish_replay(PROP, p, r);
    }
    let draws = args.scale(12, 10);
    let mut g = vec![];
    let mut x = args.seed.wrapping_mul(0x9E37_79B9_7F4A_7C15) | 1;
    for &n in LENS {
        for kind in [Kind::U8, Kind::U64, Kind::Arr3, Kind::Nested, Kind::P, Kind::Sentinel, Kind::NonZero, Kind::Wide, Kind::NestedWide, Kind::Arr24, Kind::U128, Kind::U16, Kind::Keep, Kind::OptBool, Kind::NonZeroU8, Kind::Marker] {
            for _ in 0..(if n > 1024 { 2 } else { draws }) {
                x ^= x << 13;
                x ^= x >> 7;
                x ^= x << 17;
                g.push(Case { n, kind, op: Op::Zeroize, seed: x });
            }
            if !matches!(kind, Kind::NonZero | Kind::Keep | Kind::OptBool | Kind::NonZeroU8 | Kind::Marker) {
                g.push(Case { n, kind, op: Op::ConstDefault, seed: 0 });
            }
        }
    }
    let acc = engine::parallel(&args, PROP, |w, workers, acc| {
        for (i, c) in g.iter().enumerate() {
            if i % workers == w {
                acc.run(c, exec);
            }
        }
    });
    engine::finish(
        &args,
        started,
        acc,
        Report {
            prop: PROP,
            level: "exploration",
            rule: "run-time half: case = (every N in 0..=64 and 100,127,128,255,256,1000,1023,1024,2047,2048,3000,3500,4095,4096,4097,5000,6000,8192,10000,12000 - each a distinct storage shape -, element kind u8 / u64 / [u8;3] / nested GenericArray<u8,U3> / P{a:u8,b:u16} with DEFAULT {0xAB,0xCDEF} / a type whose zeroized value is a non-zero sentinel / NonZeroU32 (zeroizes to 1) / a 16-byte struct of two u64 with a per-field distinguishable DEFAULT / nested GenericArray<u64,U2> / [u64;3] / u128 / u16 / a struct whose zeroize keeps an id field and counts its calls / one-byte types whose zeroized byte is not 0x00 (Option<bool>, NonZeroU8, a marker newtype), operation, seeded non-zero prior contents). \
                   Oracle: after zeroize() every one of the N elements equals what zeroizing that element alone gives (and the element's zeroize ran exactly N times where it is counted), read through iteration, indexing and by-value iteration; const_default() and DEFAULT have length N, every element equals T::DEFAULT, and equal Default::default() where both exist. \
                   non-trivial = N >= 2 and an element kind other than u8; distinct = distinct case tuples",
            exhaustive: false,
            assumptions: vec!["an odd storage node using one child twice is indistinguishable by value (harmless by construction)".into()],
            extra: serde_json::json!({}),
        },
    );
}
