//! C15 - heap interop preserves contents, needs exact length, and reuses the allocation.

use generic_array::sequence::GenericSequence;
use generic_array::typenum::{U16777216, U4194304};
use generic_array::{box_arr, ArrayLength, GenericArray};
use harness::engine::{self, Acc, Args, Report};
use harness::ralloc::{self, Ev, RecAlloc};
use harness::registry::{self, Elem, Tracked};
use serde::{Deserialize, Serialize};

#[global_allocator]
static ALLOC: RecAlloc = RecAlloc;

pub const PROP: &str = "C15";

#[derive(Clone, Copy, Debug, Serialize, Deserialize, PartialEq, Eq, Hash)]
pub enum Kind {
    U8,
    U64,
    Unit,
    Tracked,
}

#[derive(Clone, Copy, Debug, Serialize, Deserialize, PartialEq, Eq, Hash)]
pub enum Op {
    /// TryFrom<Vec<T>> for GenericArray: (source length, spare capacity)
    VecToArr(usize, usize),
    /// TryFrom<Box<[T]>> for GenericArray
    SliceToArr(usize),
    ArrToVec,
    ArrToSlice,
    BoxIntoSlice,
    BoxIntoVec,
    /// try_from_boxed_slice
    SliceToBox(usize),
    /// try_from_vec (source length, spare capacity)
    VecToBox(usize, usize),
    BoxIntoIter,
    /// try_boxed_from_iter / boxed collect with c items
    BoxedCollect(usize, bool),
    DefaultBoxed,
    BoxedGenerate,
    BoxArrRepeat,
    BoxArrList,
    /// zero-sized `()` elements only: a Vec / Box<[()]> whose length agrees with N in its low bits (N + 2^16, 2^31, 2^32, 3*2^32,
    /// 2^48) or exceeds isize::MAX, offered to (form) 0 TryFrom<Vec>, 1 TryFrom<Box<[T]>>, 2 try_from_vec, 3 try_from_boxed_slice
    HugeUnit(u8, u8),
    /// child process: constructor `which` of an array of 2^22 or 2^24 bytes on a 256 KiB stack
    Big(u8, bool),
}

#[derive(Clone, Debug, Serialize, Deserialize, PartialEq, Eq, Hash)]
pub struct Case {
    pub n: usize,
    pub kind: Kind,
    pub op: Op,
    pub salt: u32,
}

type Item = (u32, Option<u32>);
fn snap<T: Elem>(s: &[T]) -> Vec<Item> {
    s.iter().map(|x| (x.get(), x.ident())).collect()
}

fn src<T: Elem>(len: usize, spare: usize, salt: u32) -> Vec<T> {
    let mut v = Vec::with_capacity(len + spare);
    v.extend((0..len).map(|i| T::mk(salt.wrapping_add(i as u32 * 3))));
    v
}

/// the conversion must hand over the same heap block: no dealloc / realloc of it and no new block of its size
fn same_block(what: &str, before: usize, after: usize, bytes: usize, events: &[Ev]) -> Result<(), String> {
    if bytes == 0 {
        return Ok(());
    }
    if before != after {
        return Err(format!("{what}: documented O(1) but the data moved to another block (copy)"));
    }
    for e in events {
        match *e {
            Ev::Dealloc { ptr, .. } if ptr == before => return Err(format!("{what}: the source block was freed during the conversion")),
            Ev::Realloc { ptr, .. } if ptr == before => return Err(format!("{what}: the source block was reallocated during the conversion")),
            Ev::Alloc { size, .. } if size == bytes => return Err(format!("{what}: a new block of the array's size ({bytes} bytes) was allocated during the conversion")),
            _ => {}
        }
    }
    Ok(())
}

fn elems_dropped_once<T: Elem>(what: &str, ids: &[Item]) -> Result<(), String> {
    for (_, id) in ids {
        if let Some(id) = id {
            if registry::is_live(*id) {
                return Err(format!("{what}: LengthError, but element id={id} of the rejected source was not dropped"));
            }
        }
    }
    Ok(())
}

fn run<T: Elem + Clone + Default, N: ArrayLength>(case: &Case) -> Result<(), String> {
    let n = N::USIZE;
    let salt = case.salt;
    let bytes = n * core::mem::size_of::<T>();
    let arr = || -> GenericArray<T, N> { GenericArray::generate(|i| T::mk(salt.wrapping_add(i as u32 * 3))) };
    match case.op {
        Op::VecToArr(l, spare) => {
            let v = src::<T>(l, spare, salt);
            let want = snap(&v);
            match GenericArray::<T, N>::try_from(v) {
                Ok(a) => {
                    if l != n {
                        return Err(format!("TryFrom<Vec>: accepted a Vec of length {l} for N = {n}"));
                    }
                    if snap(&a) != want {
                        return Err("TryFrom<Vec>: contents or order differ from the source".into());
                    }
                }
                Err(_) => {
                    if l == n {
                        return Err(format!("TryFrom<Vec>: LengthError for a Vec of exactly N = {n}"));
                    }
                    elems_dropped_once::<T>("TryFrom<Vec>", &want)?;
                }
            }
        }
        Op::HugeUnit(form, sel) => {
            if std::mem::size_of::<T>() != 0 || std::mem::needs_drop::<T>() {
                return Ok(());
            }
            let l = [n + (1 << 16), n + (1 << 31), n + (1 << 32), n + (3 << 32), n + (1 << 48), usize::MAX, isize::MAX as usize + 1 + n][sel as usize % 7];
            // a vector of zero-sized elements owns no memory whatever its length (its capacity is usize::MAX)
            let mut v: Vec<T> = Vec::new();
            unsafe { v.set_len(l) };
            let (name, ok) = match form {
                0 => ("TryFrom<Vec>", GenericArray::<T, N>::try_from(v).is_ok()),
                1 => ("TryFrom<Box<[T]>>", GenericArray::<T, N>::try_from(v.into_boxed_slice()).is_ok()),
                2 => ("try_from_vec", GenericArray::<T, N>::try_from_vec(v).is_ok()),
                _ => ("try_from_boxed_slice", GenericArray::<T, N>::try_from_boxed_slice(v.into_boxed_slice()).is_ok()),
            };
            if ok {
                return Err(format!("{name}: accepted {l} zero-sized elements for N = {n}"));
            }
        }
        Op::SliceToArr(l) => {
            let v = src::<T>(l, 0, salt).into_boxed_slice();
            let want = snap(&v);
            match GenericArray::<T, N>::try_from(v) {
                Ok(a) => {
                    if l != n {
                        return Err(format!("TryFrom<Box<[T]>>: accepted length {l} for N = {n}"));
                    }
                    if snap(&a) != want {
                        return Err("TryFrom<Box<[T]>>: contents or order differ from the source".into());
                    }
                }
                Err(_) => {
                    if l == n {
                        return Err(format!("TryFrom<Box<[T]>>: LengthError for exactly N = {n}"));
                    }
                    elems_dropped_once::<T>("TryFrom<Box<[T]>>", &want)?;
                }
            }
        }
        Op::ArrToVec | Op::ArrToSlice => {
            let a = arr();
            let want = snap(&a);
            let got = if matches!(case.op, Op::ArrToVec) {
                let v: Vec<T> = a.into();
                if v.len() != n {
                    return Err(format!("From<GenericArray> for Vec: length {}", v.len()));
                }
                snap(&v)
            } else {
                let v: Box<[T]> = a.into();
                snap(&v)
            };
            if got != want {
                return Err("From<GenericArray> for Vec / Box<[T]>: contents or order differ".into());
            }
        }
        Op::BoxIntoSlice | Op::BoxIntoVec => {
            let b = Box::new(arr());
            let want = snap(&b);
            let before = b.as_ptr() as usize;
            ralloc::arm(None);
            let (after, got, len) = if matches!(case.op, Op::BoxIntoSlice) {
                let s = b.into_boxed_slice();
                let ev = ralloc::disarm();
                let r = (s.as_ptr() as usize, snap(&s), s.len());
                same_block("into_boxed_slice", before, r.0, bytes, &ev)?;
                r
            } else {
                let v = b.into_vec();
                let ev = ralloc::disarm();
                let r = (v.as_ptr() as usize, snap(&v), v.len());
                same_block("into_vec", before, r.0, bytes, &ev)?;
                r
            };
            let _ = after;
            if len != n || got != want {
                return Err("into_boxed_slice / into_vec: contents, order or length differ".into());
            }
        }
        Op::SliceToBox(l) => {
            let s = src::<T>(l, 0, salt).into_boxed_slice();
            let want = snap(&s);
            let before = s.as_ptr() as usize;
            ralloc::arm(None);
            let r = GenericArray::<T, N>::try_from_boxed_slice(s);
            let ev = ralloc::disarm();
            match r {
                Ok(b) => {
                    if l != n {
                        return Err(format!("try_from_boxed_slice: accepted length {l} for N = {n}"));
                    }
                    same_block("try_from_boxed_slice", before, b.as_ptr() as usize, bytes, &ev)?;
                    if snap(&b) != want {
                        return Err("try_from_boxed_slice: contents differ".into());
                    }
                }
                Err(_) => {
                    if l == n {
                        return Err(format!("try_from_boxed_slice: LengthError for exactly N = {n}"));
                    }
                    elems_dropped_once::<T>("try_from_boxed_slice", &want)?;
                }
            }
        }
        Op::VecToBox(l, spare) => {
            let v = src::<T>(l, spare, salt);
            let want = snap(&v);
            let before = v.as_ptr() as usize;
            let exact_cap = v.capacity() == v.len();
            ralloc::arm(None);
            let r = GenericArray::<T, N>::try_from_vec(v);
            let ev = ralloc::disarm();
            match r {
                Ok(b) => {
                    if l != n {
                        return Err(format!("try_from_vec: accepted length {l} for N = {n}"));
                    }
                    if exact_cap {
                        same_block("try_from_vec (len == capacity)", before, b.as_ptr() as usize, bytes, &ev)?;
                    }
                    if snap(&b) != want {
                        return Err("try_from_vec: contents differ".into());
                    }
                }
                Err(_) => {
                    if l == n {
                        return Err(format!("try_from_vec: LengthError for exactly N = {n}"));
                    }
                    elems_dropped_once::<T>("try_from_vec", &want)?;
                }
            }
        }
        Op::BoxIntoIter => {
            let b = Box::new(arr());
            let want = snap(&b);
            let got: Vec<Item> = b.into_iter().map(|x| (x.get(), x.ident())).collect();
            if got != want {
                return Err("Box<GenericArray>::into_iter: items differ from the array".into());
            }
        }
        Op::BoxedCollect(c, fallible) => {
            let items = src::<T>(c, 0, salt);
            let want = snap(&items);
            // the source is the Vec itself or a scripted iterator over it whose size hint is unknown, a loose upper bound, or
            // counts down from a claimed total of N (reporting "nothing left" after N items whatever it still holds)
            use harness::script::{Hint, ScriptIter};
            let hint = match salt % 5 {
                0 => None,
                1 => Some(Hint::Unknown),
                2 => Some(Hint::Countdown(n)),
                3 => Some(Hint::CountdownExact(n)),
                _ => Some(Hint::Lower0),
            };
            let r = match hint {
                None => {
                    if fallible {
                        GenericArray::<T, N>::try_boxed_from_iter(items).ok()
                    } else {
                        engine::catch(|| items.into_iter().collect::<Box<GenericArray<T, N>>>()).ok()
                    }
                }
                Some(h) => {
                    let (it, _probe) = ScriptIter::new(items, vec![], h, false);
                    if fallible {
                        GenericArray::<T, N>::try_boxed_from_iter(it).ok()
                    } else {
                        engine::catch(|| it.collect::<Box<GenericArray<T, N>>>()).ok()
                    }
                }
            };
            match r {
                Some(b) => {
                    if c != n {
                        return Err(format!("boxed collect: accepted {c} items for N = {n}"));
                    }
                    if snap(&b) != want {
                        return Err("boxed collect: contents differ".into());
                    }
                }
                None => {
                    if c == n {
                        return Err(format!("boxed collect: rejected exactly N = {n} items"));
                    }
                    elems_dropped_once::<T>("boxed collect", &want)?;
                }
            }
        }
        Op::DefaultBoxed => {
            let b = GenericArray::<T, N>::default_boxed();
            let d = T::default().get();
            if b.len() != n || b.iter().any(|x| x.get() != d) {
                return Err("default_boxed: not N default elements".into());
            }
        }
        Op::BoxedGenerate => {
            let b = Box::<GenericArray<T, N>>::generate(|i| T::mk(salt.wrapping_add(i as u32)));
            let want: Vec<u32> = (0..n).map(|i| T::norm(salt.wrapping_add(i as u32))).collect();
            if b.iter().map(|x| x.get()).collect::<Vec<_>>() != want {
                return Err("boxed generate: element i is not f(i)".into());
            }
        }
        Op::BoxArrRepeat => {
            let x = T::mk(salt);
            let b: Box<GenericArray<T, N>> = box_arr![x; N];
            if b.len() != n || b.iter().any(|y| y.get() != T::norm(salt)) {
                return Err("box_arr![x; N]: not N copies of x".into());
            }
        }
        Op::BoxArrList => {
            let b = box_arr![T::mk(salt), T::mk(salt + 1), T::mk(salt + 2)];
            let want: Vec<u32> = (0..3).map(|i| T::norm(salt + i)).collect();
            if b.iter().map(|y| y.get()).collect::<Vec<_>>() != want {
                return Err("box_arr![a, b, c]: contents differ".into());
            }
        }
        Op::Big(..) => unreachable!(),
    }
    Ok(())
}

/// 16 KiB element: a short array of these is larger than the thread's stack although its length is small
#[derive(Clone, Copy)]
pub struct Blk([u8; 16384]);
impl Default for Blk {
    fn default() -> Self {
        Blk([0; 16384])
    }
}
pub trait BigElem: Copy + Default + 'static {
    fn at(i: usize) -> Self;
    fn tag(&self) -> u8;
}
impl BigElem for u8 {
    fn at(i: usize) -> u8 {
        i as u8
    }
    fn tag(&self) -> u8 {
        *self
    }
}
impl BigElem for Blk {
    fn at(i: usize) -> Blk {
        let mut b = Blk([0; 16384]);
        b.0[0] = i as u8;
        b.0[16383] = i as u8;
        b
    }
    fn tag(&self) -> u8 {
        self.0[16383]
    }
}

/// child process: build an array far larger than the stack on a thread with a 256 KiB stack
fn big_child(which: u8, huge: bool) -> ! {
    fn go<T: BigElem, N: ArrayLength>(which: u8) -> bool {
        let n = N::USIZE;
        let b: Box<GenericArray<T, N>> = match which % 5 {
            0 => GenericArray::<T, N>::default_boxed(),
            1 => Box::<GenericArray<T, N>>::generate(T::at),
            2 => box_arr![T::at(7); N],
            3 => (0..n).map(T::at).collect(),
            _ => GenericArray::<T, N>::try_boxed_from_iter((0..n).map(T::at)).unwrap(),
        };
        let ok = match which % 5 {
            0 => b[0].tag() == 0 && b[n - 1].tag() == 0,
            2 => b[0].tag() == 7 && b[n - 1].tag() == 7,
            _ => b[1].tag() == 1 && b[n - 1].tag() == (n - 1) as u8,
        };
        // round trips documented O(1) must not need stack either
        let v = b.into_vec();
        let b2 = GenericArray::<T, N>::try_from_vec(v).unwrap();
        let s = b2.into_boxed_slice();
        let b3 = GenericArray::<T, N>::try_from_boxed_slice(s).unwrap();
        ok && b3.len() == n
    }
    use generic_array::typenum::{U31, U32};
    /// box_arr![x; <usize expression>]: the length is an expression, so these cannot be generic over N
    fn expr_forms(which: u8) -> bool {
        use generic_array::typenum::{U32, U4194304};
        match which {
            20 => {
                let b: Box<GenericArray<u8, U4194304>> = box_arr![7u8; 4194304];
                b[0] == 7 && b[4194303] == 7 && b.len() == 1 << 22
            }
            21 => {
                let b: Box<GenericArray<u8, U4194304>> = box_arr![7u8; 1 << 22];
                b[0] == 7 && b[4194303] == 7
            }
            _ => {
                let b: Box<GenericArray<Blk, U32>> = box_arr![Blk::at(7); 32];
                b[0].tag() == 7 && b[31].tag() == 7
            }
        }
    }
    let h = std::thread::Builder::new()
        .stack_size(256 * 1024)
        .spawn(move || match (which / 5, huge) {
            (4, _) => expr_forms(which),
            (0, false) => go::<u8, U4194304>(which),
            (0, true) => go::<u8, U16777216>(which),
            (1, false) => go::<Blk, U32>(which),
            (_, _) => go::<Blk, U31>(which),
        })
        .unwrap();
    match h.join() {
        Ok(true) => {
            println!("BIG-OK");
            std::process::exit(0)
        }
        _ => std::process::exit(3),
    }
}

fn run_big(which: u8, huge: bool) -> Result<(), String> {
    let exe = std::env::current_exe().map_err(|e| e.to_string())?;
    let out = std::process::Command::new(exe).arg("--big").arg(which.to_string()).arg(if huge { "1" } else { "0" }).output().map_err(|e| e.to_string())?;
    if out.status.success() && String::from_utf8_lossy(&out.stdout).contains("BIG-OK") {
        return Ok(());
    }
    let name = if which >= 20 { "box_arr![x; <usize expression>]" } else { ["default_boxed", "boxed generate", "box_arr![x; N]", "boxed collect", "try_boxed_from_iter"][which as usize % 5] };
    let shape = match (which / 5, huge) {
        (4, _) if which < 22 => "4 MiB array of u8",
        (4, _) => "512 KiB array of 32 elements of 16 KiB",
        (0, false) => "4 MiB array of u8",
        (0, true) => "16 MiB array of u8",
        (1, false) => "512 KiB array of 32 elements of 16 KiB",
        _ => "496 KiB array of 31 elements of 16 KiB",
    };
    Err(format!(
        "{name} of a {shape} on a thread with a 256 KiB stack did not complete (status {:?}): {}",
        out.status,
        String::from_utf8_lossy(&out.stderr).chars().take(200).collect::<String>()
    ))
}

macro_rules! lens {
    ($n:expr, $N:ident, $body:expr) => {
        harness::len_match!($n, $N, $body, [0: U0, 1: U1, 2: U2, 3: U3, 4: U4, 5: U5, 7: U7, 8: U8, 12: U12, 16: U16, 33: U33, 64: U64, 256: U256, 1024: U1024, 65536: U65536])
    };
}
const LENS: &[usize] = &[0, 1, 2, 3, 4, 5, 7, 8, 12, 16, 33, 64, 256, 1024, 65536];

pub fn exec(case: &Case, acc: &mut Acc) -> Result<(), String> {
    if let Op::Big(which, huge) = case.op {
        run_big(which, huge)?;
        acc.count(true, case);
        acc.class("multi_MiB_array_on_256KiB_stack");
        return Ok(());
    }
    registry::reset();
    match case.kind {
        Kind::U8 => lens!(case.n, N, run::<u8, N>(case)),
        Kind::U64 => lens!(case.n, N, run::<u64, N>(case)),
        Kind::Unit => lens!(case.n, N, run::<(), N>(case)),
        Kind::Tracked => lens!(case.n, N, run::<Tracked, N>(case)),
    }?;
    engine::end_case(false)?;
    let wrong_len = matches!(case.op, Op::VecToArr(l, _) | Op::SliceToArr(l) | Op::SliceToBox(l) | Op::VecToBox(l, _) | Op::BoxedCollect(l, _) if l != case.n);
    let identity = matches!(case.op, Op::BoxIntoSlice | Op::BoxIntoVec | Op::SliceToBox(_) | Op::VecToBox(_, 0)) && case.n > 0 && case.kind != Kind::Unit;
    acc.count(wrong_len || identity, case);
    if wrong_len {
        acc.class("wrong_source_length");
    }
    if identity {
        acc.class("block_identity_checked");
    }
    Ok(())
}

pub fn main() {
    let args = Args::parse();
    if let Some(i) = args.extra.iter().position(|a| a == "--big") {
        big_child(args.extra[i + 1].parse().unwrap(), args.extra[i + 2] == "1");
    }
    engine::install_hook();
    engine::maybe_replay_many::<Case>(PROP, &args, exec);
    let started = std::time::Instant::now();
    if let Some(p) = &args.replay {
        let case: Case = engine::load_replay(p);
        let mut acc = Acc::new();
        let r = engine::catch(|| exec(&case, &mut acc)).unwrap_or_else(|c| Err(format!("panic: {}", c.msg)));
        engine::finish_replay(PROP, p, r);
    }
    let draws = args.scale(6, 5);
    let mut g = vec![];
    let mut x = args.seed.wrapping_mul(0x9E37_79B9_7F4A_7C15) | 1;
    let mut salt = move || {
        x ^= x << 13;
        x ^= x >> 7;
        x ^= x << 17;
        (x >> 24) as u32 & 0xfffff
    };
    for kind in [Kind::U8, Kind::U64, Kind::Unit, Kind::Tracked] {
        for &n in LENS {
            if n == 65536 && kind == Kind::Tracked {
                continue;
            }
            let mut ops = vec![Op::ArrToVec, Op::ArrToSlice, Op::BoxIntoSlice, Op::BoxIntoVec, Op::BoxIntoIter, Op::DefaultBoxed, Op::BoxedGenerate, Op::BoxArrRepeat];
            if n == 3 {
                ops.push(Op::BoxArrList);
            }
            let mut ls = vec![0, n.saturating_sub(1), n, n + 1];
            ls.sort();
            ls.dedup();
            for l in ls {
                ops.push(Op::SliceToArr(l));
                ops.push(Op::SliceToBox(l));
                ops.push(Op::BoxedCollect(l, true));
                ops.push(Op::BoxedCollect(l, false));
                for spare in [0usize, 1, 7] {
                    ops.push(Op::VecToArr(l, spare));
                    ops.push(Op::VecToBox(l, spare));
                }
            }
            if kind == Kind::Unit {
                for form in 0..4u8 {
                    for sel in 0..7u8 {
                        ops.push(Op::HugeUnit(form, sel));
                    }
                }
            }
            if n == 65536 {
                ops.retain(|o| !matches!(o, Op::ArrToVec | Op::ArrToSlice | Op::VecToArr(..) | Op::SliceToArr(_)) || kind == Kind::Unit || kind == Kind::U8);
            }
            for op in ops {
                for _ in 0..(if n > 64 { 1 } else { draws }) {
                    g.push(Case { n, kind, op, salt: salt() });
                }
            }
        }
    }
    for which in 5..10u8 {
        g.push(Case { n: 32, kind: Kind::U8, op: Op::Big(which, false), salt: 0 });
        g.push(Case { n: 31, kind: Kind::U8, op: Op::Big(which, true), salt: 0 });
    }
    for which in 0..5u8 {
        g.push(Case { n: 1 << 22, kind: Kind::U8, op: Op::Big(which, false), salt: 0 });
        if args.thorough() || which < 2 {
            g.push(Case { n: 1 << 24, kind: Kind::U8, op: Op::Big(which, true), salt: 0 });
        }
    }
    for which in 20..23u8 {
        g.push(Case { n: 1 << 22, kind: Kind::U8, op: Op::Big(which, false), salt: 0 });
    }
    // the unoptimised build only runs the small-stack constructions (everything else is identical to the optimised run)
    if std::env::var("VERIF_PROFILE").as_deref() == Ok("stk") {
        g.retain(|c| matches!(c.op, Op::Big(..)));
        for which in 0..10u8 {
            let c = Case { n: 0, kind: Kind::U8, op: Op::Big(which, which % 2 == 1), salt: 1 };
            if !g.contains(&c) {
                g.push(c);
            }
        }
    }
    let acc = engine::parallel(&args, PROP, |w, workers, acc| {
        for (i, c) in g.iter().enumerate() {
            if i % workers == w {
                acc.run(c, exec);
            }
        }
    });
    engine::finish(
        &args,
        started,
        acc,
        Report {
            prop: PROP,
            level: "exploration",
            rule: "case = (N in {0,1,2,3,4,5,7,8,12,16,33,64,256,1024,65536}, element kind u8/u64/()/drop-tracked, conversion, source length in {0, N-1, N, N+1} (for () also N + 2^16, 2^31, 2^32, 3*2^32, 2^48, usize::MAX and isize::MAX + 1 + N through the four fallible conversions), spare capacity 0/1/7, seeded values). Conversions: TryFrom<Vec>, TryFrom<Box<[T]>>, From<GenericArray> for Vec / Box<[T]>, into_boxed_slice, into_vec, try_from_boxed_slice, try_from_vec, Box<GenericArray>::into_iter, try_boxed_from_iter / boxed collect, default_boxed, boxed generate, box_arr! (repeat and list). \
                   Oracle: contents equal the source Vec in order (values and identities); Ok iff source length = N; on LengthError every element of the rejected source has been dropped; for the conversions documented O(1) the data pointer is unchanged and the recording allocator saw no dealloc/realloc of that block and no new block of its size; the five boxed constructors build 4 MiB and 16 MiB arrays of bytes, and 31- and 32-element arrays of 16 KiB elements, on a thread with a 256 KiB stack inside a child process (a stack round trip kills the child). \
                   non-trivial = wrong source length, or a block-identity check on a non-empty non-zero-sized array, or a multi-MiB construction; distinct = distinct case tuples",
            exhaustive: false,
            assumptions: vec!["the small-stack constructions run twice: in the optimised harness profile and in an opt-level 0 build, where a stack round trip cannot be optimised away".into()],
            extra: serde_json::json!({}),
        },
    );
}
