//! C05 - a panicking element destructor never causes a second drop or a stale read.
//! Fault enumeration: (operation, length, iterator position, argument, the one element whose destructor panics).

use generic_array::functional::FunctionalSequence;
use generic_array::internals::{ArrayBuilder, ArrayConsumer, IntrusiveArrayBuilder};
use generic_array::sequence::GenericSequence;
use generic_array::typenum::{U2, U3};
use generic_array::{ArrayLength, GenericArray};
use harness::engine::{self, Acc, Args, Report};
use harness::registry::{self, Elem, Tracked, TrackedBig, TrackedZst};
use harness::with_mid;
use proptest::prelude::*;
use serde::{Deserialize, Serialize};

pub const PROP: &str = "C05";

#[derive(Clone, Copy, Debug, Serialize, Deserialize, PartialEq, Eq, Hash)]
pub enum Op {
    // by-value iterator at (front, back)
    IterDrop,
    Nth(usize),
    NthBack(usize),
    Count,
    Last,
    /// consuming adaptors whose closure drops the element it is given
    FoldDrop,
    RFoldDrop,
    ForLoopDrop,
    /// clone the iterator, drop the clone (the clone's elements have their own identities)
    CloneDrop,
    /// `it.clone_from(&other)`: the destination's remaining elements are released, one of their destructors panics;
    /// argument = how many elements the source iterator has already yielded from its front
    IterCloneFrom(usize),
    /// `arr.clone_from(&other)` (0 stack, 1 boxed): one of the destination's old elements panics in its destructor
    ArrCloneFrom(u8),
    // whole values
    ArrDrop,
    BoxDrop,
    NestedDrop,
    /// collect from a source that is too short (c items) / too long: the builder releases what was stored
    CollectShort(usize),
    CollectLong,
    BoxedCollectShort(usize),
    BoxedCollectLong,
    TryFromVecWrongLen,
    /// conversions to `Box<GenericArray>` from a heap sequence of the wrong length (the rejected source is released):
    /// 0 try_from_vec with N+1 items, 1 try_from_boxed_slice with N+1, 2 try_from_vec with N-1, 3 try_from_boxed_slice with N-1,
    /// 4 `TryFrom<Box<[T]>>` for the unboxed array with N+1, 5 try_from_vec with N+1 items and spare capacity
    BoxedFromWrongLen(u8),
    /// serde: a sequence source without size hints that ends after c < N elements / holds N+1 elements / fails when asked for
    /// element c <= N: the array's visitor releases the elements it has stored while *not* unwinding
    SerdeShort(usize),
    SerdeLong,
    SerdeElemErr(usize),
    /// internals: builder / consumer dropped at position p
    Builder(usize),
    Intrusive(usize),
    Consumer(usize),
    /// closures that drop their argument: receiver form 0 owned, 3 boxed
    MapDrop(u8),
    ZipDrop(u8),
    FoldArrDrop(u8),
    /// by-value zip of a plain (no drop glue) array with a tracked one whose closure drops both: 0 plain on the left, 1 plain on the right
    ZipMixedDrop(u8),
}

#[derive(Clone, Debug, Serialize, Deserialize, PartialEq, Eq, Hash)]
pub struct Case {
    pub zst: bool,
    pub n: usize,
    pub front: usize,
    pub back: usize,
    pub op: Op,
    /// index (in creation order) of the element whose destructor panics
    pub e: usize,
    /// 96-byte drop-tracked elements instead of the 24-byte ones
    #[serde(default)]
    pub big: bool,
}

fn arm(ids: &[Option<u32>], e: usize) {
    match ids.get(e).copied().flatten() {
        Some(id) => registry::panic_in_drop_of(id),
        None => registry::panic_in_zst_drop(e as u64),
    }
}

/// A sequence-only deserializer without size hints: `c` elements (u32 values), optionally failing at index `err_at`.
mod serde_src {
    use serde::de::{DeserializeSeed, Deserializer, IntoDeserializer, SeqAccess, Visitor};
    pub type E = serde::de::value::Error;
    pub struct SeqDe {
        pub c: usize,
        pub err_at: Option<usize>,
        pub base: u32,
    }
    struct Seq {
        d: SeqDe,
        i: usize,
    }
    impl<'de> SeqAccess<'de> for Seq {
        type Error = E;
        fn next_element_seed<S: DeserializeSeed<'de>>(&mut self, seed: S) -> Result<Option<S::Value>, E> {
            if self.d.err_at == Some(self.i) {
                return Err(serde::de::Error::custom("scripted element error"));
            }
            if self.i >= self.d.c {
                return Ok(None);
            }
            let v = self.d.base + self.i as u32;
            self.i += 1;
            seed.deserialize(IntoDeserializer::<E>::into_deserializer(v)).map(Some)
        }
    }
    impl<'de> Deserializer<'de> for SeqDe {
        type Error = E;
        fn deserialize_any<V: Visitor<'de>>(self, visitor: V) -> Result<V::Value, E> {
            visitor.visit_seq(Seq { d: self, i: 0 })
        }
        serde::forward_to_deserialize_any! {
            bool i8 i16 i32 i64 i128 u8 u16 u32 u64 u128 f32 f64 char str string bytes byte_buf option unit unit_struct newtype_struct seq
            tuple tuple_struct map struct enum identifier ignored_any
        }
    }
}

fn exec_typed<T: Elem + Clone + Default + for<'de> serde::Deserialize<'de>, N: ArrayLength>(case: &Case, acc: &mut Acc) -> Result<(), String> {
    registry::reset();
    let n = N::USIZE;
    let arr: GenericArray<T, N> = GenericArray::generate(|i| T::mk(100 + i as u32));
    let ids: Vec<Option<u32>> = arr.iter().map(|x| x.ident()).collect();
    let mut held: Vec<T> = vec![];
    let e = case.e;
    let mut fired_in_op = false;
    let mut expect_panic_payload_ok = true;
    match case.op {
        Op::ArrCloneFrom(form) => {
            let other: GenericArray<T, N> = GenericArray::generate(|i| T::mk(300 + i as u32));
            if n > 0 {
                arm(&ids, e % n);
            }
            if form == 0 {
                let mut dst = arr;
                let r = engine::catch(|| dst.clone_from(&other));
                fired_in_op = registry::drop_panic_fired();
                registry::clear_drop_panic();
                if let Err(c) = r {
                    expect_panic_payload_ok &= c.injected;
                }
                // the caller keeps both: whatever the destination holds now must be live
                let _ = engine::catch(|| dst.iter().for_each(|x| { x.get(); }));
                let _ = engine::catch(move || drop(dst));
            } else {
                let mut dst = Box::new(arr);
                let other_b = Box::new(other.clone());
                let r = engine::catch(|| dst.clone_from(&other_b));
                fired_in_op = registry::drop_panic_fired();
                registry::clear_drop_panic();
                if let Err(c) = r {
                    expect_panic_payload_ok &= c.injected;
                }
                let _ = engine::catch(|| dst.iter().for_each(|x| { x.get(); }));
                let _ = engine::catch(move || drop(dst));
                drop(other_b);
            }
            other.iter().for_each(|x| { x.get(); });
            drop(other);
        }
        Op::IterDrop | Op::Nth(_) | Op::NthBack(_) | Op::Count | Op::Last | Op::FoldDrop | Op::RFoldDrop | Op::ForLoopDrop | Op::CloneDrop | Op::IterCloneFrom(_) => {
            let mut it = arr.into_iter();
            for _ in 0..case.front {
                held.extend(it.next());
            }
            for _ in 0..case.back {
                held.extend(it.next_back());
            }
            let live = n - case.front - case.back;
            match case.op {
                Op::CloneDrop => {
                    // the clone's elements are new: make the e-th of them panic
                    let c = it.clone();
                    let cids: Vec<Option<u32>> = c.as_slice().iter().map(|x| x.ident()).collect();
                    if live > 0 {
                        arm(&cids, e % live);
                    }
                    let r = engine::catch(move || drop(c));
                    fired_in_op = registry::drop_panic_fired();
                    if let Err(c) = &r {
                        expect_panic_payload_ok &= c.injected;
                    }
                    registry::clear_drop_panic();
                    drop(it);
                }
                Op::IterCloneFrom(sf) => {
                    let other: GenericArray<T, N> = GenericArray::generate(|i| T::mk(300 + i as u32));
                    let mut src = other.into_iter();
                    for _ in 0..sf.min(n) {
                        held.extend(src.next());
                    }
                    if live > 0 {
                        arm(&ids[case.front..n - case.back], e % live);
                    }
                    let r = engine::catch(|| it.clone_from(&src));
                    fired_in_op = registry::drop_panic_fired();
                    registry::clear_drop_panic();
                    if let Err(c) = r {
                        expect_panic_payload_ok &= c.injected;
                    }
                    // the caller caught the panic and keeps using both iterators: everything they yield must be live
                    let r2 = engine::catch(|| {
                        let mut out = vec![];
                        while let Some(x) = it.next() {
                            x.get();
                            out.push(x);
                            if let Some(y) = it.next_back() {
                                y.get();
                                out.push(y);
                            }
                        }
                        out
                    });
                    if let Ok(v) = r2 {
                        held.extend(v);
                    }
                    let _ = engine::catch(move || drop(it));
                    for x in src.as_slice() {
                        x.get();
                    }
                    drop(src);
                }
                Op::Nth(a) | Op::NthBack(a) => {
                    // e is an index into the live range
                    if live > 0 {
                        arm(&ids[case.front..n - case.back], e % live);
                    }
                    let back = matches!(case.op, Op::NthBack(_));
                    let r = engine::catch(|| if back { it.nth_back(a) } else { it.nth(a) });
                    fired_in_op = registry::drop_panic_fired();
                    registry::clear_drop_panic();
                    match r {
                        Ok(x) => {
                            if let Some(x) = x {
                                x.get();
                                held.push(x);
                            }
                        }
                        Err(c) => expect_panic_payload_ok &= c.injected,
                    }
                    // the caller caught the panic and keeps using the iterator: everything it yields must be live
                    let r2 = engine::catch(|| {
                        let mut out = vec![];
                        loop {
                            match it.next() {
                                Some(x) => {
                                    x.get();
                                    out.push(x)
                                }
                                None => break,
                            }
                            if let Some(x) = it.next_back() {
                                x.get();
                                out.push(x)
                            }
                        }
                        out
                    });
                    if let Ok(v) = r2 {
                        held.extend(v);
                    }
                    let _ = engine::catch(move || drop(it));
                }
                op => {
                    if live > 0 {
                        arm(&ids[case.front..n - case.back], e % live);
                    }
                    let r = engine::catch(move || match op {
                        Op::IterDrop => {
                            drop(it);
                            None
                        }
                        Op::Count => {
                            let _ = it.count();
                            None
                        }
                        Op::Last => it.last(),
                        Op::FoldDrop => {
                            it.fold((), |_, x| drop(x));
                            None
                        }
                        Op::RFoldDrop => {
                            it.rfold((), |_, x| drop(x));
                            None
                        }
                        _ => {
                            for x in it {
                                drop(x)
                            }
                            None
                        }
                    });
                    fired_in_op = registry::drop_panic_fired();
                    registry::clear_drop_panic();
                    match r {
                        Ok(Some(x)) => {
                            x.get();
                            held.push(x)
                        }
                        Ok(None) => {}
                        Err(c) => expect_panic_payload_ok &= c.injected,
                    }
                }
            }
        }
        Op::ArrDrop | Op::BoxDrop => {
            if n > 0 {
                arm(&ids, e % n);
            }
            let boxed = matches!(case.op, Op::BoxDrop);
            let r = engine::catch(move || if boxed { drop(Box::new(arr)) } else { drop(arr) });
            fired_in_op = registry::drop_panic_fired();
            if let Err(c) = r {
                expect_panic_payload_ok &= c.injected;
            }
        }
        Op::NestedDrop => {
            drop(arr);
            let nested: GenericArray<GenericArray<T, U2>, U3> = GenericArray::generate(|i| GenericArray::generate(|j| T::mk((i * 2 + j) as u32)));
            let nids: Vec<Option<u32>> = nested.iter().flat_map(|a| a.iter()).map(|x| x.ident()).collect();
            arm(&nids, e % 6);
            let r = engine::catch(move || drop(nested));
            fired_in_op = registry::drop_panic_fired();
            if let Err(c) = r {
                expect_panic_payload_ok &= c.injected;
            }
        }
        Op::CollectShort(_) | Op::CollectLong | Op::BoxedCollectShort(_) | Op::BoxedCollectLong | Op::TryFromVecWrongLen => {
            drop(arr);
            if n == 0 && matches!(case.op, Op::CollectShort(_) | Op::BoxedCollectShort(_)) {
                // there is no source shorter than an empty one: not a case of this operation
                return Ok(());
            }
            let c = match case.op {
                Op::CollectShort(c) | Op::BoxedCollectShort(c) => c.min(n.saturating_sub(1)),
                Op::TryFromVecWrongLen => n + 1,
                _ => n + 2,
            };
            let items: Vec<T> = (0..c).map(|i| T::mk(500 + i as u32)).collect();
            let iids: Vec<Option<u32>> = items.iter().map(|x| x.ident()).collect();
            if c > 0 {
                arm(&iids, e % c);
            }
            let op = case.op;
            let r = engine::catch(move || match op {
                Op::CollectShort(_) | Op::CollectLong => {
                    // hint hidden, so the length is only discovered while filling
                    GenericArray::<T, N>::try_from_iter(items.into_iter().filter(|_| true)).is_ok()
                }
                Op::TryFromVecWrongLen => GenericArray::<T, N>::try_from(items).is_ok(),
                _ => GenericArray::<T, N>::try_boxed_from_iter(items.into_iter().filter(|_| true)).is_ok(),
            });
            fired_in_op = registry::drop_panic_fired();
            match r {
                Ok(true) => return Err(format!("a source of {c} items was accepted for N = {n}")),
                Ok(false) => {}
                Err(c) => expect_panic_payload_ok &= c.injected,
            }
        }
        Op::BoxedFromWrongLen(form) => {
            drop(arr);
            let c = if form == 2 || form == 3 { if n == 0 { return Ok(()) } else { n - 1 } } else { n + 1 };
            let mut items: Vec<T> = Vec::with_capacity(if form == 5 { c + 5 } else { c });
            items.extend((0..c).map(|i| T::mk(500 + i as u32)));
            let iids: Vec<Option<u32>> = items.iter().map(|x| x.ident()).collect();
            if c > 0 {
                arm(&iids, e % c);
            }
            let r = engine::catch(move || match form {
                0 | 2 | 5 => GenericArray::<T, N>::try_from_vec(items).is_ok(),
                1 | 3 => GenericArray::<T, N>::try_from_boxed_slice(items.into_boxed_slice()).is_ok(),
                _ => GenericArray::<T, N>::try_from(items.into_boxed_slice()).is_ok(),
            });
            fired_in_op = registry::drop_panic_fired();
            match r {
                Ok(true) => return Err(format!("a heap sequence of {c} items was accepted for N = {n}")),
                Ok(false) => {}
                Err(c) => expect_panic_payload_ok &= c.injected,
            }
        }
        Op::SerdeShort(_) | Op::SerdeLong | Op::SerdeElemErr(_) => {
            drop(arr);
            // (elements the source holds, index at which it fails instead of yielding)
            let (c, err_at) = match case.op {
                Op::SerdeShort(c) => {
                    if n == 0 {
                        return Ok(());
                    }
                    (c.min(n - 1), None)
                }
                Op::SerdeLong => (n + 1, None),
                Op::SerdeElemErr(c) => (n + 1, Some(c.min(n))),
                _ => unreachable!(),
            };
            // elements are created by `T::deserialize` while the visitor pulls them: identities are handed out in creation order
            let probe = T::mk(0);
            let has_id = probe.ident().is_some();
            drop(probe);
            let stored = err_at.unwrap_or(c).min(n);
            let base = registry::created() as u32;
            let iids: Vec<Option<u32>> = (0..stored).map(|j| if has_id { Some(base + j as u32) } else { None }).collect();
            if stored > 0 {
                arm(&iids, e % stored);
            }
            let r = engine::catch(move || {
                let de = serde_src::SeqDe { c, err_at, base: 500 };
                <GenericArray<T, N> as serde::Deserialize>::deserialize(de).is_ok()
            });
            fired_in_op = registry::drop_panic_fired();
            match r {
                Ok(true) => return Err(format!("a sequence source of {c} elements (error at {err_at:?}) was accepted for N = {n}")),
                Ok(false) => {}
                Err(c) => expect_panic_payload_ok &= c.injected,
            }
        }
        Op::Builder(p) | Op::Intrusive(p) => {
            drop(arr);
            let p = p.min(n);
            let items: Vec<T> = (0..p).map(|i| T::mk(700 + i as u32)).collect();
            let iids: Vec<Option<u32>> = items.iter().map(|x| x.ident()).collect();
            if p > 0 {
                arm(&iids, e % p);
            }
            let intrusive = matches!(case.op, Op::Intrusive(_));
            let r = engine::catch(move || unsafe {
                if intrusive {
                    let mut storage = GenericArray::<T, N>::uninit();
                    let mut b = IntrusiveArrayBuilder::new(&mut storage);
                    {
                        let (slots, pos) = b.iter_position();
                        for (slot, x) in slots.zip(items) {
                            slot.write(x);
                            *pos += 1;
                        }
                    }
                    drop(b);
                } else {
                    let mut b = ArrayBuilder::<T, N>::new();
                    {
                        let (slots, pos) = b.iter_position();
                        for (slot, x) in slots.zip(items) {
                            slot.write(x);
                            *pos += 1;
                        }
                    }
                    drop(b);
                }
            });
            fired_in_op = registry::drop_panic_fired();
            if let Err(c) = r {
                expect_panic_payload_ok &= c.injected;
            }
        }
        Op::Consumer(p) => {
            let p = p.min(n);
            if n - p > 0 {
                arm(&ids[p..], e % (n - p));
            }
            let mut taken: Vec<T> = vec![];
            let r = engine::catch(|| unsafe {
                let mut c = ArrayConsumer::new(arr);
                {
                    let (it, pos) = c.iter_position();
                    for src in it.take(p) {
                        taken.push(core::ptr::read(src));
                        *pos += 1;
                    }
                }
                drop(c);
            });
            fired_in_op = registry::drop_panic_fired();
            held.extend(taken);
            if let Err(c) = r {
                expect_panic_payload_ok &= c.injected;
            }
        }
        Op::MapDrop(form) | Op::FoldArrDrop(form) => {
            if n > 0 {
                arm(&ids, e % n);
            }
            let op = case.op;
            let r = engine::catch(move || match (op, form) {
                (Op::MapDrop(_), 0) => drop(arr.map(|x| {
                    drop(x);
                    0u8
                })),
                (Op::MapDrop(_), _) => drop(Box::new(arr).map(|x| {
                    drop(x);
                    0u8
                })),
                (_, 0) => arr.fold((), |_, x| drop(x)),
                _ => Box::new(arr).fold((), |_, x| drop(x)),
            });
            fired_in_op = registry::drop_panic_fired();
            if let Err(c) = r {
                expect_panic_payload_ok &= c.injected;
            }
        }
        Op::ZipMixedDrop(side) => {
            let plain: GenericArray<u32, N> = GenericArray::generate(|i| i as u32);
            if n > 0 {
                arm(&ids, e % n);
            }
            let r = engine::catch(move || {
                if side == 0 {
                    drop(plain.zip(arr, |a, b| {
                        drop(b);
                        a as u8
                    }))
                } else {
                    drop(arr.zip(plain, |a, b| {
                        drop(a);
                        b as u8
                    }))
                }
            });
            fired_in_op = registry::drop_panic_fired();
            if let Err(c) = r {
                expect_panic_payload_ok &= c.injected;
            }
        }
        Op::ZipDrop(form) => {
            let other: GenericArray<T, N> = GenericArray::generate(|i| T::mk(300 + i as u32));
            let mut all = ids.clone();
            all.extend(other.iter().map(|x| x.ident()));
            if n > 0 {
                arm(&all, e % (2 * n));
            }
            let r = engine::catch(move || match form {
                0 => drop(arr.zip(other, |a, b| {
                    drop(a);
                    drop(b);
                    0u8
                })),
                1 => drop(arr.zip(other, |a, b| {
                    drop(b);
                    drop(a);
                    0u8
                })),
                // owned receiver, borrowed argument: the provided (default) inverted_zip body
                3 => {
                    let other = other;
                    drop(arr.zip(&other, |a, b| {
                        b.get();
                        drop(a);
                        0u8
                    }))
                }
                4 => {
                    let mut other = other;
                    drop(arr.zip(&mut other, |a, b| {
                        b.get();
                        drop(a);
                        0u8
                    }))
                }
                // borrowed receiver, owned argument
                5 => drop((&arr).zip(other, |a, b| {
                    a.get();
                    drop(b);
                    0u8
                })),
                _ => drop(Box::new(arr).zip(Box::new(other), |a, b| {
                    drop(a);
                    drop(b);
                    0u8
                })),
            });
            fired_in_op = registry::drop_panic_fired();
            if let Err(c) = r {
                expect_panic_payload_ok &= c.injected;
            }
        }
    }
    registry::clear_drop_panic();
    // harness teardown: everything the caller holds must still be live, then it is dropped
    for x in &held {
        x.get();
    }
    let _ = engine::catch(move || drop(held));
    if !expect_panic_payload_ok {
        return Err("a panic other than the injected destructor panic escaped the operation".into());
    }
    let leaked = registry::leaked();
    let r = engine::end_case(true);
    acc.count(fired_in_op, case);
    if fired_in_op {
        acc.class("destructor_panicked_inside_operation");
    }
    if leaked > 0 {
        acc.class("cases_with_leaks_allowed_by_the_property");
    }
    r
}

pub fn exec(case: &Case, acc: &mut Acc) -> Result<(), String> {
    if case.front + case.back > case.n {
        return Ok(());
    }
    if case.zst {
        with_mid!(case.n, N, exec_typed::<TrackedZst, N>(case, acc))
    } else if case.big {
        with_mid!(case.n, N, exec_typed::<TrackedBig, N>(case, acc))
    } else {
        with_mid!(case.n, N, exec_typed::<Tracked, N>(case, acc))
    }
}

fn ops_for(len: usize, n: usize) -> Vec<Op> {
    let mut v = vec![Op::IterDrop, Op::Count, Op::Last, Op::FoldDrop, Op::RFoldDrop, Op::ForLoopDrop, Op::CloneDrop, Op::IterCloneFrom(0), Op::IterCloneFrom(1), Op::IterCloneFrom(n)];
    for a in 0..=len + 2 {
        v.push(Op::Nth(a));
        v.push(Op::NthBack(a));
    }
    v.push(Op::Nth(usize::MAX));
    v.push(Op::NthBack(usize::MAX));
    let _ = n;
    v
}

fn whole_ops(n: usize) -> Vec<Op> {
    let mut v = vec![Op::ArrDrop, Op::BoxDrop, Op::NestedDrop, Op::CollectLong, Op::BoxedCollectLong, Op::TryFromVecWrongLen, Op::ArrCloneFrom(0), Op::ArrCloneFrom(1)];
    for c in 0..n {
        v.push(Op::CollectShort(c));
        v.push(Op::BoxedCollectShort(c));
        v.push(Op::SerdeShort(c));
    }
    v.push(Op::SerdeLong);
    for c in 0..=n {
        v.push(Op::SerdeElemErr(c));
    }
    for form in 0..6 {
        v.push(Op::BoxedFromWrongLen(form));
    }
    for p in 0..=n {
        v.push(Op::Builder(p));
        v.push(Op::Intrusive(p));
        v.push(Op::Consumer(p));
    }
    for f in [0u8, 3] {
        v.push(Op::MapDrop(f));
        v.push(Op::FoldArrDrop(f));
    }
    for f in 0..7u8 {
        v.push(Op::ZipDrop(f));
    }
    v.push(Op::ZipMixedDrop(0));
    v.push(Op::ZipMixedDrop(1));
    v
}

fn exhaustive(nmax: usize) -> Vec<Case> {
    let mut out = vec![];
    for n in 0..=nmax {
        for front in 0..=n {
            for back in 0..=(n - front) {
                let len = n - front - back;
                for op in ops_for(len, n) {
                    for e in 0..len.max(1) {
                        out.push(Case { zst: false, n, front, back, op, e, big: false });
                        if n <= 6 {
                            out.push(Case { zst: false, n, front, back, op, e, big: true });
                        }
                        if e == 0 || e == len - 1 {
                            out.push(Case { zst: true, n, front, back, op, e, big: false });
                        }
                    }
                }
            }
        }
        for op in whole_ops(n) {
            let span = match op {
                Op::ZipDrop(_) => 2 * n,
                Op::CollectLong | Op::BoxedCollectLong => n + 2,
                Op::TryFromVecWrongLen | Op::BoxedFromWrongLen(_) | Op::SerdeLong => n + 1,
                Op::NestedDrop => 6,
                _ => n,
            };
            for e in 0..span.max(1) {
                out.push(Case { zst: false, n, front: 0, back: 0, op, e, big: false });
                if n <= 6 {
                    out.push(Case { zst: false, n, front: 0, back: 0, op, e, big: true });
                }
                if e % 3 == 0 {
                    out.push(Case { zst: true, n, front: 0, back: 0, op, e, big: false });
                }
            }
        }
    }
    out
}

fn random_strategy() -> impl Strategy<Value = Case> {
    let lens: &'static [usize] = &[9, 10, 11, 12, 16, 31, 32, 33, 64, 100, 255, 256, 1000, 1024];
    (0..lens.len(), any::<bool>(), any::<u16>(), any::<u16>(), 0usize..50, any::<u16>(), any::<u16>()).prop_map(move |(li, zst, fs, bs, opk, a, es)| {
        let n = lens[li];
        let front = (fs as usize * (n + 1)) >> 16;
        let back = (bs as usize * (n - front + 1)) >> 16;
        let len = n - front - back;
        let arg = match a % 8 {
            0 => 0,
            1 => 1,
            2 => len.saturating_sub(1),
            3 => len,
            4 => len + 1,
            5 => usize::MAX,
            _ => (a as usize * (len + 3)) >> 16,
        };
        let op = match opk {
            0 => Op::IterDrop,
            1 => Op::Count,
            2 => Op::Last,
            3 => Op::FoldDrop,
            4 => Op::RFoldDrop,
            5 => Op::ForLoopDrop,
            6 => Op::CloneDrop,
            40 | 41 => Op::IterCloneFrom(arg.min(n)),
            42 => Op::ArrCloneFrom(0),
            43 => Op::ArrCloneFrom(1),
            7..=14 => Op::Nth(arg),
            15..=22 => Op::NthBack(arg),
            23 => Op::ArrDrop,
            24 => Op::BoxDrop,
            25 => Op::CollectLong,
            26 => Op::BoxedCollectLong,
            27 => Op::CollectShort((a as usize * n.max(1)) >> 16),
            28 => Op::BoxedCollectShort((a as usize * n.max(1)) >> 16),
            29 => Op::Builder((a as usize * (n + 1)) >> 16),
            30 => Op::Intrusive((a as usize * (n + 1)) >> 16),
            31 => Op::Consumer((a as usize * (n + 1)) >> 16),
            32 => Op::MapDrop(0),
            33 => Op::MapDrop(3),
            34 => Op::FoldArrDrop(0),
            35 => Op::FoldArrDrop(3),
            36 => Op::ZipDrop(0),
            37 => Op::ZipDrop(1),
            38 => Op::ZipDrop((es % 7) as u8),
            39 if es % 2 == 0 => Op::ZipMixedDrop((es % 4 / 2) as u8),
            44 => Op::SerdeShort((a as usize * n.max(1)) >> 16),
            45 => Op::SerdeLong,
            46 => Op::SerdeElemErr((a as usize * (n + 1)) >> 16),
            47 | 48 => Op::BoxedFromWrongLen((es % 6) as u8),
            _ => Op::TryFromVecWrongLen,
        };
        let (front, back) = if opk >= 23 && opk != 40 && opk != 41 { (0, 0) } else { (front, back) };
        Case { zst, n, front, back, op, e: (es as usize * (2 * n + 2)) >> 16, big: !zst && es % 3 == 0 }
    })
}

pub fn main() {
    let args = Args::parse();
    engine::install_hook();
    engine::maybe_replay_many::<Case>(PROP, &args, exec);
    let started = std::time::Instant::now();
    if let Some(p) = &args.replay {
        let case: Case = engine::load_replay(p);
        let mut acc = Acc::new();
        let r = engine::catch(|| exec(&case, &mut acc)).unwrap_or_else(|c| Err(format!("panic: {}", c.msg)));
        engine::finish_replay(PROP, p, r);
    }
    let nmax = if args.thorough() { 12 } else { 8 };
    let exh = exhaustive(nmax);
    let random_cases = args.scale(300_000, 5) as u32;
    let acc = engine::parallel(&args, PROP, |w, workers, acc| {
        for (i, c) in exh.iter().enumerate() {
            if i % workers == w {
                acc.run(c, exec);
            }
        }
        let strat = random_strategy();
        engine::prop_search(acc, args.seed, w as u64, random_cases / workers as u32, &strat, |c, acc| exec(c, acc));
    });
    engine::finish(
        &args,
        started,
        acc,
        Report {
            prop: PROP,
            level: "fault_enumeration",
            rule: "case = (operation, N, iterator position (front, back), argument, the single element e whose destructor panics once). \
                   Enumerated completely for N in 0..=nmax: iterator drop/nth(a)/nth_back(a)/count/last/fold/rfold/for-loop/clone-drop/clone_from (as destination, source in three positions) from every (front, back) with every a in 0..=len+2 and usize::MAX and every e in the live range; \
                   element kinds: 24-byte, 96-byte and zero-sized drop-tracked; whole-value operations (array, Box, nested array drop; clone_from into an array / boxed array; zips of a plain array with a tracked one; too-short/too-long collect, stack and boxed; deserialisation (serde) from a hint-less sequence source that ends early, is too long, or fails at element c; conversions to Box<GenericArray> from a Vec / Box<[T]> of N-1 or N+1 items (try_from_vec, try_from_boxed_slice, TryFrom<Box<[T]>>, with spare capacity); builder/consumer dropped at every position; map/zip/fold whose closure drops its argument - zip in owned x owned, owned x &, owned x &mut, & x owned and boxed forms) with every e. Larger N sampled with proptest. \
                   After the panic is caught the caller keeps using the iterator (drains it from both ends), so a stale read is observed, not just a second drop. \
                   Oracle: per-element drop count <= 1, no observation after drop, no garbage drop; leaks are allowed and only counted. \
                   non-trivial = the chosen destructor actually ran and panicked inside the operation; distinct = distinct case tuples",
            exhaustive: false,
            assumptions: vec![
                "single fault: one destructor panics once; a second panic during unwinding is a process abort by language rule and says nothing about the crate".into(),
                format!("complete enumeration for N <= {nmax}; N up to 1024 sampled"),
            ],
            extra: serde_json::json!({"exhaustive_part": {"n_max": nmax, "cases": exh.len()}}),
        },
    );
}


/// bytes -> case (coverage-guided fuzzing front end)
pub fn decode(data: &[u8]) -> Case {
    let lens: &[usize] = &[0, 1, 2, 3, 4, 5, 6, 7, 8, 9, 10, 11, 12, 16, 31, 32, 33, 64, 100];
    let g = |i: usize| data.get(i).copied().unwrap_or(0) as usize;
    let n = lens[g(0) % lens.len()];
    let front = g(1) % (n + 1);
    let back = g(2) % (n - front + 1);
    let len = n - front - back;
    let arg = match g(4) % 6 {
        0 => g(5) % (len + 3),
        1 => len,
        2 => len + 1,
        3 => usize::MAX,
        _ => g(5) % 4,
    };
    let op = match g(3) % 24 {
        0 => Op::IterDrop,
        1 => Op::Count,
        2 => Op::Last,
        3 => Op::FoldDrop,
        4 => Op::RFoldDrop,
        5 => Op::ForLoopDrop,
        6 => Op::CloneDrop,
        7..=10 => Op::Nth(arg),
        11..=14 => Op::NthBack(arg),
        15 => Op::ArrDrop,
        16 => Op::CollectShort(g(5) % n.max(1)),
        17 => Op::CollectLong,
        18 => Op::Builder(g(5) % (n + 1)),
        19 => Op::Intrusive(g(5) % (n + 1)),
        20 => Op::Consumer(g(5) % (n + 1)),
        21 => Op::MapDrop(0),
        22 => Op::ZipDrop((g(5) % 3) as u8),
        _ => Op::FoldArrDrop(0),
    };
    let (front, back) = if g(3) % 24 >= 15 { (0, 0) } else { (front, back) };
    Case { zst: g(6) % 5 == 0, n, front, back, op, e: g(7) % (2 * n + 2), big: g(6) % 5 == 1 }
}
