//! C09 - lengthen/shorten/split/concat/remove equal the corresponding Vec operations.

#[path = "tables.rs"]
#[allow(dead_code)]
mod tables;

use core::ops::{Add, Sub};
use generic_array::sequence::*;
use generic_array::typenum::operator_aliases::{Add1, Diff, Sub1, Sum};
use generic_array::typenum::B1;
use generic_array::{ArrayLength, GenericArray};
use harness::engine::{self, Acc, Args, Report};
use harness::len_match;
use harness::registry::{self, Elem, Tracked, TrackedZst};
use serde::{Deserialize, Serialize};
use tables::{concat_pairs, split_pairs, CONCAT_PAIRS, SPLIT_PAIRS};

pub const PROP: &str = "C09";

#[derive(Clone, Copy, Debug, Serialize, Deserialize, PartialEq, Eq, Hash)]
pub enum Kind {
    Unit,
    U8,
    U64,
    W24,
    Tracked,
    Zst,
    Big72,
    Al32,
}

#[derive(Clone, Copy, Debug, Serialize, Deserialize, PartialEq, Eq, Hash)]
pub enum Op {
    /// split N at K: form 0 owned, 1 &, 2 &mut
    Split(usize, usize, u8),
    Concat(usize, usize),
    /// append + prepend on N, then pop_back / pop_front of the results
    Lengthen(usize),
    /// pop_back / pop_front on N (N >= 1), then append / prepend back
    Shorten(usize),
    Remove(usize, usize),
    SwapRemove(usize, usize),
}

#[derive(Clone, Debug, Serialize, Deserialize, PartialEq, Eq, Hash)]
pub struct Case {
    pub kind: Kind,
    pub op: Op,
    pub salt: u32,
}

type Item = (u32, Option<u32>);

fn snap<T: Elem>(s: &[T]) -> Vec<Item> {
    s.iter().map(|x| (x.get(), x.ident())).collect()
}

fn build<T: Elem, N: ArrayLength>(base: u32) -> (GenericArray<T, N>, Vec<Item>) {
    let a: GenericArray<T, N> = GenericArray::generate(|i| T::mk(base.wrapping_add(i as u32 * 3)));
    let m = snap(&a);
    (a, m)
}

fn same(what: &str, got: &[Item], want: &[Item]) -> Result<(), String> {
    if got != want {
        let pos = got.iter().zip(want).position(|(g, w)| g != w).unwrap_or(got.len().min(want.len()));
        return Err(format!(
            "{what}: differs from the Vec reference at index {pos} (lengths {} vs {}): got {:?}, expected {:?}",
            got.len(),
            want.len(),
            got.get(pos),
            want.get(pos)
        ));
    }
    Ok(())
}

fn split_case<T: Elem, N, K>(form: u8, salt: u32) -> Result<(), String>
where
    N: ArrayLength + Sub<K>,
    K: ArrayLength,
    Diff<N, K>: ArrayLength,
{
    let (n, k) = (N::USIZE, K::USIZE);
    let (mut a, m) = build::<T, N>(salt);
    let sz = core::mem::size_of::<T>();
    match form {
        0 => {
            let (h, t) = Split::<T, K>::split(a);
            same("split head", &snap(&h), &m[..k])?;
            same("split tail", &snap(&t), &m[k..])?;
        }
        1 => {
            let base = a.as_ptr() as usize;
            let (h, t) = Split::<T, K>::split(&a);
            let (hp, tp) = (h.as_ptr() as usize, t.as_ptr() as usize);
            if h.len() != k || t.len() != n - k {
                return Err(format!("&split: lengths {} and {}, expected {k} and {}", h.len(), t.len(), n - k));
            }
            if hp != base || tp != base + k * sz {
                return Err(format!("&split: halves at offsets {} and {} bytes from the source, expected 0 and {} (no copy, adjacent, covering)", hp.wrapping_sub(base) as isize, tp.wrapping_sub(base) as isize, k * sz));
            }
            same("&split head", &snap(h), &m[..k])?;
            same("&split tail", &snap(t), &m[k..])?;
        }
        _ => {
            let base = a.as_ptr() as usize;
            let mut m2 = m.clone();
            {
                let (h, t) = Split::<T, K>::split(&mut a);
                let (hp, tp) = (h.as_ptr() as usize, t.as_ptr() as usize);
                if h.len() != k || t.len() != n - k {
                    return Err(format!("&mut split: lengths {} and {}, expected {k} and {}", h.len(), t.len(), n - k));
                }
                if hp != base || tp != base + k * sz {
                    return Err(format!("&mut split: halves at offsets {} and {} bytes, expected 0 and {}", hp.wrapping_sub(base) as isize, tp.wrapping_sub(base) as isize, k * sz));
                }
                // write through both halves
                if k > 0 {
                    let x = T::mk(salt ^ 0x5555);
                    m2[k - 1] = (x.get(), x.ident());
                    h[k - 1] = x;
                }
                if n - k > 0 {
                    let x = T::mk(salt ^ 0x3333);
                    m2[k] = (x.get(), x.ident());
                    t[0] = x;
                }
            }
            same("&mut split write-through", &snap(&a), &m2)?;
        }
    }
    Ok(())
}

fn concat_case<T: Elem, N, M>(salt: u32) -> Result<(), String>
where
    N: ArrayLength + Add<M>,
    M: ArrayLength,
    Sum<N, M>: ArrayLength,
{
    let (a, ma) = build::<T, N>(salt);
    let (b, mb) = build::<T, M>(salt.wrapping_mul(7).wrapping_add(11));
    let mut want = ma;
    want.extend(mb);
    let c = Concat::concat(a, b);
    if c.len() != N::USIZE + M::USIZE {
        return Err(format!("concat length {}", c.len()));
    }
    same("concat", &snap(&c), &want)
}

fn lengthen_case<T: Elem, N>(salt: u32) -> Result<(), String>
where
    N: ArrayLength + Add<B1>,
    Add1<N>: ArrayLength + Sub<B1, Output = N>,
    Sub1<Add1<N>>: ArrayLength,
{
    // append == push, then pop_back gives it back
    let (a, m) = build::<T, N>(salt);
    let x = T::mk(salt ^ 0x7777);
    let xi = (x.get(), x.ident());
    let longer = a.append(x);
    let mut want = m.clone();
    want.push(xi);
    same("append", &snap(&longer), &want)?;
    let (shorter, last) = longer.pop_back();
    same("append then pop_back", &snap(&shorter), &m)?;
    if (last.get(), last.ident()) != xi {
        return Err("pop_back after append did not return the appended element".into());
    }
    // prepend == insert(0)
    let y = T::mk(salt ^ 0x1111);
    let yi = (y.get(), y.ident());
    let longer = shorter.prepend(y);
    let mut want = m.clone();
    want.insert(0, yi);
    same("prepend", &snap(&longer), &want)?;
    let (first, rest) = longer.pop_front();
    same("prepend then pop_front", &snap(&rest), &m)?;
    if (first.get(), first.ident()) != yi {
        return Err("pop_front after prepend did not return the prepended element".into());
    }
    drop(last);
    Ok(())
}

fn shorten_case<T: Elem, N>(salt: u32) -> Result<(), String>
where
    N: ArrayLength + Sub<B1>,
    Sub1<N>: ArrayLength + Add<B1, Output = N>,
    Add1<Sub1<N>>: ArrayLength,
{
    let (a, m) = build::<T, N>(salt);
    let (init, last) = a.pop_back();
    let mut want = m.clone();
    let wl = want.pop().unwrap();
    same("pop_back", &snap(&init), &want)?;
    if (last.get(), last.ident()) != wl {
        return Err(format!("pop_back returned {:?}, Vec::pop gives {:?}", (last.get(), last.ident()), wl));
    }
    let back = init.append(last);
    same("pop_back then append", &snap(&back), &m)?;
    let (first, tail) = back.pop_front();
    let mut want = m.clone();
    let wf = want.remove(0);
    same("pop_front", &snap(&tail), &want)?;
    if (first.get(), first.ident()) != wf {
        return Err(format!("pop_front returned {:?}, Vec::remove(0) gives {:?}", (first.get(), first.ident()), wf));
    }
    let back = tail.prepend(first);
    same("pop_front then prepend", &snap(&back), &m)
}

fn remove_case<T: Elem, N>(idx: usize, swap: bool, salt: u32) -> Result<(), String>
where
    N: ArrayLength + Sub<B1>,
    Sub1<N>: ArrayLength,
{
    let n = N::USIZE;
    let (a, m) = build::<T, N>(salt);
    let r = engine::catch(move || if swap { a.swap_remove(idx) } else { a.remove(idx) });
    let name = if swap { "swap_remove" } else { "remove" };
    match r {
        Ok((x, rest)) => {
            if idx >= n {
                return Err(format!("{name}({idx}) on N = {n} returned instead of panicking"));
            }
            let mut want = m.clone();
            let wx = if swap { want.swap_remove(idx) } else { want.remove(idx) };
            same(&format!("{name}({idx})"), &snap(&rest), &want)?;
            if (x.get(), x.ident()) != wx {
                return Err(format!("{name}({idx}) returned {:?}, the Vec gives {:?}", (x.get(), x.ident()), wx));
            }
            Ok(())
        }
        Err(c) => {
            if idx < n {
                return Err(format!("{name}({idx}) on N = {n} panicked: {}", c.msg));
            }
            if c.injected {
                return Err("unexpected injected panic".into());
            }
            // every element must still have been dropped exactly once (checked by end_case)
            if registry::live() != 0 {
                return Err(format!("{name}({idx}) out of range panicked but left {} of {n} elements undropped", registry::live()));
            }
            Ok(())
        }
    }
}

macro_rules! singles {
    ($n:expr, $N:ident, $body:expr) => {
        len_match!($n, $N, $body, [0: U0, 1: U1, 2: U2, 3: U3, 4: U4, 5: U5, 6: U6, 7: U7, 8: U8, 9: U9, 10: U10, 11: U11, 12: U12,
            15: U15, 16: U16, 17: U17, 31: U31, 32: U32, 33: U33, 63: U63, 64: U64, 255: U255, 256: U256, 1023: U1023, 1024: U1024, 2048: U2048, 4096: U4096, 4097: U4097x, 8192: U8192, 10000: U10000])
    };
}
macro_rules! singles_pos {
    ($n:expr, $N:ident, $body:expr) => {
        len_match!($n, $N, $body, [1: U1, 2: U2, 3: U3, 4: U4, 5: U5, 6: U6, 7: U7, 8: U8, 9: U9, 10: U10, 11: U11, 12: U12,
            15: U15, 16: U16, 17: U17, 31: U31, 32: U32, 33: U33, 63: U63, 64: U64, 255: U255, 256: U256, 1023: U1023, 1024: U1024, 2048: U2048, 4096: U4096, 4097: U4097x, 8192: U8192, 10000: U10000])
    };
}
const SINGLES: &[usize] = &[0, 1, 2, 3, 4, 5, 6, 7, 8, 9, 10, 11, 12, 15, 16, 17, 31, 32, 33, 63, 64, 255, 256, 1023, 1024, 2048, 4096, 4097, 8192, 10000];

fn exec_typed<T: Elem>(case: &Case, acc: &mut Acc) -> Result<(), String> {
    registry::reset();
    let salt = case.salt;
    let mut zero_operand = false;
    match case.op {
        Op::Split(n, k, form) => {
            zero_operand = k == 0 || k == n;
            split_pairs!(n, k, N, K => split_case::<T, N, K>(form, salt))?
        }
        Op::Concat(n, m) => {
            zero_operand = n == 0 || m == 0;
            concat_pairs!(n, m, N, M => concat_case::<T, N, M>(salt))?
        }
        Op::Lengthen(n) => {
            zero_operand = n == 0;
            singles!(n, N, lengthen_case::<T, N>(salt))?
        }
        Op::Shorten(n) => {
            zero_operand = n == 1;
            singles_pos!(n, N, shorten_case::<T, N>(salt))?
        }
        Op::Remove(n, i) => singles_pos!(n, N, remove_case::<T, N>(i, false, salt))?,
        Op::SwapRemove(n, i) => singles_pos!(n, N, remove_case::<T, N>(i, true, salt))?,
    }
    engine::end_case(false)?;
    let oob = matches!(case.op, Op::Remove(n, i) | Op::SwapRemove(n, i) if i >= n);
    acc.count(zero_operand || oob || matches!(case.kind, Kind::Unit | Kind::Tracked | Kind::Zst | Kind::Big72 | Kind::Al32), case);
    if zero_operand {
        acc.class("zero_length_operand_or_edge_pivot");
    }
    if oob {
        acc.class("out_of_range_index");
    }
    acc.class(&format!("kind_{}", T::KIND));
    Ok(())
}

pub fn exec(case: &Case, acc: &mut Acc) -> Result<(), String> {
    match case.kind {
        Kind::Unit => exec_typed::<()>(case, acc),
        Kind::U8 => exec_typed::<u8>(case, acc),
        Kind::U64 => exec_typed::<u64>(case, acc),
        Kind::W24 => exec_typed::<[u64; 3]>(case, acc),
        Kind::Tracked => exec_typed::<Tracked>(case, acc),
        Kind::Zst => exec_typed::<TrackedZst>(case, acc),
        Kind::Big72 => exec_typed::<harness::registry::Big72>(case, acc),
        Kind::Al32 => exec_typed::<harness::registry::Al32>(case, acc),
    }
}

fn grid(draws: u32, seed: u64) -> Vec<Case> {
    let mut out = vec![];
    let mut x = seed.wrapping_mul(0x9E37_79B9_7F4A_7C15) | 1;
    let mut salt = move || {
        x ^= x << 13;
        x ^= x >> 7;
        x ^= x << 17;
        (x >> 24) as u32 & 0xfffff
    };
    for kind in [Kind::Unit, Kind::U8, Kind::U64, Kind::W24, Kind::Tracked, Kind::Zst, Kind::Big72, Kind::Al32] {
        let mut ops = vec![];
        for &(n, k) in SPLIT_PAIRS {
            for f in 0..3 {
                ops.push(Op::Split(n, k, f));
            }
        }
        for &(n, m) in CONCAT_PAIRS {
            ops.push(Op::Concat(n, m));
        }
        for &n in SINGLES {
            ops.push(Op::Lengthen(n));
            if n >= 1 {
                ops.push(Op::Shorten(n));
                let idxs: Vec<usize> = if n <= 12 { (0..=n + 1).collect() } else { vec![0, 1, 2, n / 4, n / 2 - 1, n / 2, n / 2 + 1, 3 * n / 4, n - 2, n - 1, n, n + 1] };
                // out-of-range indices incl. ones whose byte offset idx * size_of::<T>() wraps around the address space
                let wrap = [usize::MAX, usize::MAX - 1, 1usize << 63, (1usize << 63) + 1, (1usize << 62) + 1, (1usize << 61) + 1, 1usize << 61, (1usize << 60) + 1, (1usize << 59) + 1, (1usize << 32) + 1, usize::MAX / 3 + 1, usize::MAX / 9 + 2];
                for i in idxs.into_iter().chain(wrap) {
                    ops.push(Op::Remove(n, i));
                    ops.push(Op::SwapRemove(n, i));
                }
            }
        }
        for op in ops {
            let big = match op {
                Op::Split(n, ..) | Op::Concat(n, _) | Op::Lengthen(n) | Op::Shorten(n) | Op::Remove(n, _) | Op::SwapRemove(n, _) => n > 64,
            };
            for _ in 0..(if big { 1 } else { draws }) {
                out.push(Case { kind, op, salt: salt() });
            }
        }
    }
    out
}

pub fn main() {
    let args = Args::parse();
    engine::install_hook();
    engine::maybe_replay_many::<Case>(PROP, &args, exec);
    let started = std::time::Instant::now();
    if let Some(p) = &args.replay {
        let case: Case = engine::load_replay(p);
        let mut acc = Acc::new();
        let r = engine::catch(|| exec(&case, &mut acc)).unwrap_or_else(|c| Err(format!("panic: {}", c.msg)));
        engine::finish_replay(PROP, p, r);
    }
    let g = grid(args.scale(12, 5) as u32, args.seed);
    let acc = engine::parallel(&args, PROP, |w, workers, acc| {
        for (i, c) in g.iter().enumerate() {
            if i % workers == w {
                acc.run(c, exec);
            }
        }
    });
    engine::finish(
        &args,
        started,
        acc,
        Report {
            prop: PROP,
            level: "exploration",
            rule: "type-level instantiation of every N in 0..=12 with every K <= N (split: owned, & and &mut forms), every (N, M) with N + M <= 12 (concat), 25 + 21 boundary pairs up to 4096, append/prepend/pop_back/pop_front on 30 lengths up to 10000, remove/swap_remove with every index 0..=N+1 (N <= 12; a spread incl. 0, 1, N/4, N/2, N-1, N, N+1 beyond), usize::MAX and a dozen huge indices whose byte offset would wrap (2^59+1 .. 2^63+1, MAX/3+1, MAX/9+2); element kinds of size 0, 1, 8, 24 and 72 bytes, 32-byte-aligned, drop-tracked and zero-sized tracked; seeded values. \
                   Oracle: a Vec with the same contents (push, insert(0), pop, remove(0), split_at, extend, remove, swap_remove) - elements, order, identities of tracked elements and the removed value; out-of-range indices must panic with every element dropped exactly once; by-reference split halves must be at byte offsets 0 and K*size_of::<T>() of the source with lengths K and N-K, and writes through the &mut halves must land in the source. \
                   non-trivial = a zero-length operand / edge pivot, an out-of-range index, or a zero-sized or drop-tracked element kind; distinct = distinct (kind, operation instance, values)",
            exhaustive: false,
            assumptions: vec!["a discarded one-past read is invisible natively; the thorough tier replays under Miri / ASan".into()],
            extra: serde_json::json!({"split_pairs": SPLIT_PAIRS.len(), "concat_pairs": CONCAT_PAIRS.len()}),
        },
    );
}
