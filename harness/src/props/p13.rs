//! C13 - comparison, hashing and Debug agree with the slice of the same elements.

use generic_array::typenum::{U0, U3};
use generic_array::{ArrayLength, GenericArray};
use harness::engine::{self, Acc, Args, Report};
use harness::with_lat;
use proptest::prelude::*;
use serde::{Deserialize, Serialize};
use std::collections::{BTreeMap, HashMap};
use std::fmt::Debug;
use std::hash::{BuildHasher, Hash, Hasher};

pub const PROP: &str = "C13";

#[derive(Clone, Copy, Debug, Serialize, Deserialize, PartialEq, Eq, Hash)]
pub enum Ty {
    U8,
    I32,
    F64,
    Str,
    Nested,
    /// zero-sized elements whose `Hash` still feeds the hasher: nested arrays of length 0 (each writes its length prefix)
    NestedEmpty,
    /// zero-sized elements whose `Hash` feeds nothing
    Unit,
    /// one-byte element types for which comparing / hashing the bytes is *not* comparing / hashing the elements:
    /// signed bytes (order), `bool` (its slice hash is one `write_u8` per element), and a byte with a case-insensitive
    /// `PartialEq` / `Ord` / `Hash` of its own
    I8,
    Bool,
    Ci,
}

/// an ASCII byte compared, ordered and hashed without regard to case
#[derive(Clone, Copy)]
pub struct Ci(pub u8);
impl Ci {
    fn key(&self) -> u8 {
        self.0.to_ascii_lowercase()
    }
}
impl PartialEq for Ci {
    fn eq(&self, o: &Ci) -> bool {
        self.key() == o.key()
    }
}
impl Eq for Ci {}
impl PartialOrd for Ci {
    fn partial_cmp(&self, o: &Ci) -> Option<std::cmp::Ordering> {
        Some(self.cmp(o))
    }
}
impl Ord for Ci {
    fn cmp(&self, o: &Ci) -> std::cmp::Ordering {
        self.key().cmp(&o.key())
    }
}
impl Hash for Ci {
    fn hash<H: Hasher>(&self, h: &mut H) {
        h.write_u8(self.key())
    }
}
impl Debug for Ci {
    fn fmt(&self, f: &mut std::fmt::Formatter<'_>) -> std::fmt::Result {
        Debug::fmt(&(self.0 as char), f)
    }
}

/// elements are given as small integers and mapped into the element type (F64: 0 NaN, 1 -0.0, 2 0.0, 3 1.0, 4 inf, else value)
#[derive(Clone, Debug, Serialize, Deserialize, PartialEq, Eq, Hash)]
pub struct Case {
    pub ty: Ty,
    pub a: Vec<i32>,
    pub b: Vec<i32>,
}

#[derive(Debug, PartialEq, Eq, Clone)]
enum Call {
    Write(Vec<u8>),
    U8(u8),
    U16(u16),
    U32(u32),
    U64(u64),
    U128(u128),
    Usize(usize),
    I8(i8),
    I16(i16),
    I32(i32),
    I64(i64),
    I128(i128),
    Isize(isize),
}

#[derive(Default)]
struct Recorder {
    calls: Vec<Call>,
}

impl Hasher for Recorder {
    fn finish(&self) -> u64 {
        0
    }
    fn write(&mut self, bytes: &[u8]) {
        self.calls.push(Call::Write(bytes.to_vec()))
    }
    fn write_u8(&mut self, i: u8) {
        self.calls.push(Call::U8(i))
    }
    fn write_u16(&mut self, i: u16) {
        self.calls.push(Call::U16(i))
    }
    fn write_u32(&mut self, i: u32) {
        self.calls.push(Call::U32(i))
    }
    fn write_u64(&mut self, i: u64) {
        self.calls.push(Call::U64(i))
    }
    fn write_u128(&mut self, i: u128) {
        self.calls.push(Call::U128(i))
    }
    fn write_usize(&mut self, i: usize) {
        self.calls.push(Call::Usize(i))
    }
    fn write_i8(&mut self, i: i8) {
        self.calls.push(Call::I8(i))
    }
    fn write_i16(&mut self, i: i16) {
        self.calls.push(Call::I16(i))
    }
    fn write_i32(&mut self, i: i32) {
        self.calls.push(Call::I32(i))
    }
    fn write_i64(&mut self, i: i64) {
        self.calls.push(Call::I64(i))
    }
    fn write_i128(&mut self, i: i128) {
        self.calls.push(Call::I128(i))
    }
    fn write_isize(&mut self, i: isize) {
        self.calls.push(Call::Isize(i))
    }
}

/// A hasher that is sensitive to call boundaries (word-at-a-time, FxHash style)
#[derive(Default, Clone)]
struct Boundary {
    h: u64,
}
impl Hasher for Boundary {
    fn finish(&self) -> u64 {
        self.h
    }
    fn write(&mut self, bytes: &[u8]) {
        let mut acc = bytes.len() as u64 ^ 0x51_7c_c1_b7_27_22_0a_95;
        for b in bytes {
            acc = acc.rotate_left(7) ^ *b as u64;
        }
        self.h = (self.h.rotate_left(5) ^ acc).wrapping_mul(0x517c_c1b7_2722_0a95);
    }
}
#[derive(Default, Clone)]
struct BoundaryBuild;
impl BuildHasher for BoundaryBuild {
    type Hasher = Boundary;
    fn build_hasher(&self) -> Boundary {
        Boundary::default()
    }
}

fn debug_all<A: Debug, B: Debug + ?Sized>(a: &A, b: &B) -> Result<(), String> {
    macro_rules! f {
        ($($spec:literal),*) => {
            $( {
                let (x, y) = (format!($spec, a), format!($spec, b));
                if x != y {
                    return Err(format!("Debug with {:?}: array prints {:?}, its slice prints {:?}", $spec, &x[..x.len().min(80)], &y[..y.len().min(80)]));
                }
            } )*
        };
    }
    f!("{:?}", "{:#?}", "{:5?}", "{:<7?}", "{:>9?}", "{:^6?}", "{:+?}", "{:.2?}", "{:08.3?}", "{:x?}", "{:X?}", "{:#x?}", "{:#010x?}", "{:+.1?}", "{:#.2?}");
    Ok(())
}

fn common<T: PartialOrd + Debug + Clone, N: ArrayLength>(a: &[T], b: &[T]) -> Result<(GenericArray<T, N>, GenericArray<T, N>), String> {
    let ga: GenericArray<T, N> = GenericArray::from_iter(a.iter().cloned());
    let gb: GenericArray<T, N> = GenericArray::from_iter(b.iter().cloned());
    let (sa, sb) = (&a[..], &b[..]);
    if (ga == gb) != (sa == sb) {
        return Err(format!("== gives {}, the slices give {}", ga == gb, sa == sb));
    }
    if (ga != gb) != (sa != sb) {
        return Err(format!("!= gives {}, the slices give {}", ga != gb, sa != sb));
    }
    if ga.partial_cmp(&gb) != sa.partial_cmp(sb) {
        return Err(format!("partial_cmp gives {:?}, the slices give {:?}", ga.partial_cmp(&gb), sa.partial_cmp(sb)));
    }
    if (ga < gb, ga <= gb, ga > gb, ga >= gb) != (sa < sb, sa <= sb, sa > sb, sa >= sb) {
        return Err(format!("<, <=, >, >= give {:?}, the slices give {:?}", (ga < gb, ga <= gb, ga > gb, ga >= gb), (sa < sb, sa <= sb, sa > sb, sa >= sb)));
    }
    debug_all(&ga, &sa)?;
    debug_all(&gb, &sb)?;
    // an array compared with itself (same object): must still agree with the slice (NaN is not equal to itself)
    #[allow(clippy::eq_op)]
    {
        if (ga == ga) != (sa == sa) || (ga != ga) != (sa != sa) {
            return Err(format!("a == a gives {}, the slice compared with itself gives {}", ga == ga, sa == sa));
        }
        if ga.partial_cmp(&ga) != sa.partial_cmp(sa) {
            return Err(format!("a.partial_cmp(&a) gives {:?}, the slice gives {:?}", ga.partial_cmp(&ga), sa.partial_cmp(sa)));
        }
        let r: &GenericArray<T, N> = &ga;
        if (r == r) != (sa == sa) || (r <= r) != (sa <= sa) {
            return Err("comparison of an array with itself through references disagrees with the slice".into());
        }
    }
    Ok((ga, gb))
}

fn total<T: Ord + Hash + Debug + Clone, N: ArrayLength>(a: &[T], b: &[T]) -> Result<(), String> {
    let (ga, gb) = common::<T, N>(a, b)?;
    if ga.cmp(&gb) != a.cmp(b) {
        return Err(format!("cmp gives {:?}, the slices give {:?}", ga.cmp(&gb), a.cmp(b)));
    }
    if gb.cmp(&ga) != b.cmp(a) || ga.cmp(&ga) != std::cmp::Ordering::Equal {
        return Err("cmp with swapped / identical operands disagrees with the slices".into());
    }
    if ga.clone().max(gb.clone()).as_slice() != std::cmp::max(a, b) || ga.clone().min(gb.clone()).as_slice() != std::cmp::min(a, b) {
        return Err("Ord::max / Ord::min of the arrays differ from those of the slices".into());
    }
    for (g, s) in [(&ga, a), (&gb, b)] {
        let (mut r1, mut r2) = (Recorder::default(), Recorder::default());
        g.hash(&mut r1);
        s.hash(&mut r2);
        if r1.calls != r2.calls {
            return Err(format!(
                "Hash feeds the hasher a different call sequence than the slice: array {:?} vs slice {:?}",
                &r1.calls[..r1.calls.len().min(4)],
                &r2.calls[..r2.calls.len().min(4)]
            ));
        }
    }
    // map lookups through Borrow<[T]>
    let mut hm: HashMap<GenericArray<T, N>, u8> = HashMap::new();
    hm.insert(ga.clone(), 1);
    if hm.get(a) != Some(&1) {
        return Err("HashMap keyed by the array: lookup by its own slice misses".into());
    }
    if hm.get(b).is_some() != (a == b) {
        return Err("HashMap keyed by the array: lookup by another slice hits/misses wrongly".into());
    }
    let mut hb: HashMap<GenericArray<T, N>, u8, BoundaryBuild> = HashMap::with_hasher(BoundaryBuild);
    hb.insert(ga.clone(), 1);
    if hb.get(a) != Some(&1) {
        return Err("HashMap with a call-boundary-sensitive hasher: lookup by slice misses".into());
    }
    let mut bm: BTreeMap<GenericArray<T, N>, u8> = BTreeMap::new();
    bm.insert(ga.clone(), 1);
    bm.insert(gb.clone(), 2);
    if bm.get(a).is_none() || bm.get(b) != Some(&2) {
        return Err("BTreeMap keyed by arrays: lookup by slice gives the wrong entry".into());
    }
    let first = bm.keys().next().unwrap();
    if first.as_slice() != std::cmp::min(a, b) {
        return Err("BTreeMap orders array keys differently from their slices".into());
    }
    Ok(())
}

fn f64_of(v: i32) -> f64 {
    match v {
        0 => f64::NAN,
        1 => -0.0,
        2 => 0.0,
        3 => 1.0,
        4 => f64::INFINITY,
        x => x as f64 * 0.5,
    }
}

fn exec_n<N: ArrayLength>(case: &Case) -> Result<(), String> {
    match case.ty {
        Ty::U8 => {
            let a: Vec<u8> = case.a.iter().map(|v| *v as u8).collect();
            let b: Vec<u8> = case.b.iter().map(|v| *v as u8).collect();
            total::<u8, N>(&a, &b)
        }
        Ty::I32 => total::<i32, N>(&case.a, &case.b),
        Ty::F64 => {
            let a: Vec<f64> = case.a.iter().map(|v| f64_of(*v)).collect();
            let b: Vec<f64> = case.b.iter().map(|v| f64_of(*v)).collect();
            common::<f64, N>(&a, &b).map(|_| ())
        }
        Ty::Str => {
            let a: Vec<String> = case.a.iter().map(|v| format!("k{v}\n\"")).collect();
            let b: Vec<String> = case.b.iter().map(|v| format!("k{v}\n\"")).collect();
            total::<String, N>(&a, &b)
        }
        Ty::Nested => {
            let mk = |v: &i32| -> GenericArray<u8, U3> { GenericArray::from_array([(*v >> 4) as u8, *v as u8 & 15, 7]) };
            let a: Vec<GenericArray<u8, U3>> = case.a.iter().map(mk).collect();
            let b: Vec<GenericArray<u8, U3>> = case.b.iter().map(mk).collect();
            total::<GenericArray<u8, U3>, N>(&a, &b)
        }
        Ty::NestedEmpty => {
            let a: Vec<GenericArray<u8, U0>> = case.a.iter().map(|_| GenericArray::default()).collect();
            let b: Vec<GenericArray<u8, U0>> = case.b.iter().map(|_| GenericArray::default()).collect();
            total::<GenericArray<u8, U0>, N>(&a, &b)?;
            // one more level: the elements are arrays of three zero-length arrays
            let a2: Vec<GenericArray<GenericArray<u8, U0>, U3>> = case.a.iter().map(|_| GenericArray::default()).collect();
            total::<GenericArray<GenericArray<u8, U0>, U3>, N>(&a2, &a2)
        }
        Ty::Unit => {
            let a: Vec<()> = case.a.iter().map(|_| ()).collect();
            let b: Vec<()> = case.b.iter().map(|_| ()).collect();
            total::<(), N>(&a, &b)
        }
        Ty::I8 => {
            let a: Vec<i8> = case.a.iter().map(|v| *v as u8 as i8).collect();
            let b: Vec<i8> = case.b.iter().map(|v| *v as u8 as i8).collect();
            total::<i8, N>(&a, &b)
        }
        Ty::Bool => {
            let a: Vec<bool> = case.a.iter().map(|v| v & 1 == 1).collect();
            let b: Vec<bool> = case.b.iter().map(|v| v & 1 == 1).collect();
            total::<bool, N>(&a, &b)
        }
        Ty::Ci => {
            let mk = |v: &i32| Ci(b"aAbBzZ!~"[(*v as usize) % 8]);
            let a: Vec<Ci> = case.a.iter().map(mk).collect();
            let b: Vec<Ci> = case.b.iter().map(mk).collect();
            total::<Ci, N>(&a, &b)
        }
    }
}

pub fn exec(case: &Case, acc: &mut Acc) -> Result<(), String> {
    if case.a.len() != case.b.len() {
        return Ok(());
    }
    let n = case.a.len();
    with_lat!(n, N, exec_n::<N>(case))?;
    let shared = case.a.iter().zip(&case.b).take_while(|(x, y)| x == y).count();
    let has_nan = case.ty == Ty::F64 && (case.a.contains(&0) || case.b.contains(&0));
    acc.count(n >= 1 && (shared >= 1 || has_nan || case.a == case.b), case);
    if matches!(case.ty, Ty::NestedEmpty | Ty::Unit) {
        acc.class("zero_sized_elements");
    }
    if has_nan {
        acc.class("with_NaN");
    }
    if case.a == case.b {
        acc.class("equal_pair");
    } else if shared >= 1 {
        acc.class("shared_prefix_then_differ");
    }
    Ok(())
}

fn exhaustive() -> Vec<Case> {
    let mut out = vec![];
    fn all(n: usize, alpha: usize) -> Vec<Vec<i32>> {
        let mut v = vec![vec![]];
        for _ in 0..n {
            v = v.into_iter().flat_map(|p| (0..alpha as i32).map(move |x| { let mut q = p.clone(); q.push(x); q })).collect();
        }
        v
    }
    for n in 0..=4 {
        let s = all(n, 3);
        for a in &s {
            for b in &s {
                out.push(Case { ty: Ty::U8, a: a.clone(), b: b.clone() });
            }
        }
    }
    for n in 0..=12 {
        out.push(Case { ty: Ty::NestedEmpty, a: vec![0; n], b: vec![0; n] });
        out.push(Case { ty: Ty::Unit, a: vec![0; n], b: vec![0; n] });
    }
    for n in 0..=3 {
        let s = all(n, 5);
        for a in &s {
            for b in &s {
                out.push(Case { ty: Ty::F64, a: a.clone(), b: b.clone() });
            }
        }
    }
    // one-byte kinds: signed bytes around the sign boundary, bools, case-insensitive bytes
    for n in 0..=3 {
        let s = all(n, 4);
        for a in &s {
            for b in &s {
                let i8v = |v: &Vec<i32>| v.iter().map(|x| [0, 127, 128, 255][*x as usize]).collect::<Vec<i32>>();
                out.push(Case { ty: Ty::I8, a: i8v(a), b: i8v(b) });
                out.push(Case { ty: Ty::Ci, a: a.clone(), b: b.clone() });
                if a.iter().chain(b.iter()).all(|x| *x < 2) {
                    out.push(Case { ty: Ty::Bool, a: a.clone(), b: b.clone() });
                }
            }
        }
    }
    out
}

fn random_strategy() -> impl Strategy<Value = Case> {
    let lat = harness::lens::LAT;
    (0..lat.len(), 0usize..28, any::<u16>(), any::<u64>(), 0u8..4).prop_map(move |(li, t, ps, seed, mode)| {
        let n = lat[li];
        let ty = if t >= 22 { [Ty::I8, Ty::Bool, Ty::Ci][(t - 22) % 3] } else if t >= 20 { [Ty::NestedEmpty, Ty::Unit][t - 20] } else { [Ty::U8, Ty::I32, Ty::F64, Ty::Str, Ty::Nested][t % 5] };
        let mut x = seed | 1;
        let mut r = move || {
            x ^= x << 13;
            x ^= x >> 7;
            x ^= x << 17;
            (x >> 33) as i32
        };
        let modulus = match ty {
            Ty::U8 | Ty::I8 => 256,
            Ty::Bool => 2,
            Ty::Ci => 8,
            Ty::F64 => 9,
            Ty::Nested => 256,
            Ty::NestedEmpty | Ty::Unit => 1,
            _ => 1000,
        };
        let a: Vec<i32> = (0..n).map(|_| r().rem_euclid(modulus)).collect();
        // shared prefix, then (maybe) differ
        let prefix = if mode == 0 { n } else { (ps as usize * (n + 1)) >> 16 };
        let mut b = a.clone();
        for v in b.iter_mut().skip(prefix) {
            *v = r().rem_euclid(modulus);
        }
        if mode == 1 && prefix < n {
            // differ at exactly one position
            b = a.clone();
            b[prefix] = (a[prefix] + 1).rem_euclid(modulus);
        }
        if mode == 3 && n > 0 {
            // differ at exactly one of the last four positions (tail handling of blocked comparisons)
            b = a.clone();
            let pos = n - 1 - (ps as usize % n.min(4));
            b[pos] = (a[pos] + 1 + (seed % 3) as i32).rem_euclid(modulus);
        }
        Case { ty, a, b }
    })
}

pub fn main() {
    let args = Args::parse();
    engine::install_hook();
    engine::maybe_replay_many::<Case>(PROP, &args, exec);
    let started = std::time::Instant::now();
    if let Some(p) = &args.replay {
        let case: Case = engine::load_replay(p);
        let mut acc = Acc::new();
        let r = engine::catch(|| exec(&case, &mut acc)).unwrap_or_else(|c| Err(format!("panic: {}", c.msg)));
        engine::finish_replay(PROP, p, r);
    }
    let exh = exhaustive();
    let random_cases = args.scale(100_000, 8) as u32;
    let acc = engine::parallel(&args, PROP, |w, workers, acc| {
        for (i, c) in exh.iter().enumerate() {
            if i % workers == w {
                acc.run(c, exec);
            }
        }
        let strat = random_strategy();
        engine::prop_search(acc, args.seed, w as u64, random_cases / workers as u32, &strat, |c, acc| exec(c, acc));
    });
    engine::finish(
        &args,
        started,
        acc,
        Report {
            prop: PROP,
            level: "exploration",
            rule: "case = (element type u8/i32/f64/String/nested GenericArray<u8,U3>/zero-sized GenericArray<u8,U0> (whose Hash still writes a length prefix) and arrays of those/(), pair of arrays a, b of equal length). Exhaustive: all pairs over the alphabet {0,1,2} for N in 0..=4 (u8) and over {NaN,-0.0,0.0,1.0,inf} for N in 0..=3 (f64); random: proptest pairs biased to share a prefix (equal, differ from a random position on, differ at exactly one position, differ only in one of the last four positions); every array is also compared with itself for the 34-length lattice. \
                   Oracle: the slices of the same elements: ==, !=, <, <=, >, >=, partial_cmp (None for NaN), cmp; a recording Hasher must see the identical sequence of write_* calls (call boundaries kept) from the array and from its slice; 15 Debug format specs must print the slice's output; HashMap (SipHash and a call-boundary-sensitive hasher) and BTreeMap keyed by arrays are looked up by &[T] through Borrow. \
                   non-trivial = N >= 1 and (shared prefix, NaN present, or equal pair); distinct = distinct (type, a, b)",
            exhaustive: false,
            assumptions: vec![],
            extra: serde_json::json!({"exhaustive_pairs": exh.len()}),
        },
    );
}
