//! C17 - serde round-trips arrays as fixed-size tuples and rejects any other length.

use generic_array::{ArrayLength, GenericArray};
use harness::engine::{self, Acc, Args, Report};
use harness::registry::{self, Tracked, TrackedZst};
use generic_array::typenum::{U1048576, U2097152, U262144, U524288};
use harness::with_lat;
use serde::de::value::U32Deserializer;
use serde::de::{self, DeserializeSeed, Deserializer, SeqAccess, Visitor};
use serde::ser::{self, Serialize, SerializeTuple, Serializer};
use serde::Deserialize;
use std::fmt;

pub const PROP: &str = "C17";

#[derive(Debug)]
pub struct E(String);
impl fmt::Display for E {
    fn fmt(&self, f: &mut fmt::Formatter<'_>) -> fmt::Result {
        f.write_str(&self.0)
    }
}
impl std::error::Error for E {}
impl de::Error for E {
    fn custom<T: fmt::Display>(m: T) -> Self {
        E(m.to_string())
    }
}
impl ser::Error for E {
    fn custom<T: fmt::Display>(m: T) -> Self {
        E(m.to_string())
    }
}

// ------------------------------------------------------------------------------------------------
// recording serializer

#[derive(Debug, PartialEq, Clone)]
enum SEv {
    Tuple(usize),
    Elem(u64),
    Str(String),
    End,
    Other(&'static str),
}

#[derive(Default)]
struct Rec {
    ev: Vec<SEv>,
}

macro_rules! unsupported {
    ($($name:ident($($arg:ident: $ty:ty),*) -> $ret:ty;)*) => {
        $( fn $name(self $(, $arg: $ty)*) -> Result<$ret, E> { $(let _ = $arg;)* self.ev.push(SEv::Other(stringify!($name))); Err(E(concat!("unexpected ", stringify!($name)).into())) } )*
    };
}

impl<'a> Serializer for &'a mut Rec {
    type Ok = ();
    type Error = E;
    type SerializeSeq = ser::Impossible<(), E>;
    type SerializeTuple = Self;
    type SerializeTupleStruct = ser::Impossible<(), E>;
    type SerializeTupleVariant = ser::Impossible<(), E>;
    type SerializeMap = ser::Impossible<(), E>;
    type SerializeStruct = ser::Impossible<(), E>;
    type SerializeStructVariant = ser::Impossible<(), E>;
    fn serialize_u8(self, v: u8) -> Result<(), E> {
        self.ev.push(SEv::Elem(v as u64));
        Ok(())
    }
    fn serialize_u32(self, v: u32) -> Result<(), E> {
        self.ev.push(SEv::Elem(v as u64));
        Ok(())
    }
    fn serialize_f64(self, v: f64) -> Result<(), E> {
        self.ev.push(SEv::Elem(v.to_bits()));
        Ok(())
    }
    fn serialize_str(self, v: &str) -> Result<(), E> {
        self.ev.push(SEv::Str(v.to_string()));
        Ok(())
    }
    fn serialize_tuple(self, len: usize) -> Result<Self, E> {
        self.ev.push(SEv::Tuple(len));
        Ok(self)
    }
    fn serialize_seq(self, _len: Option<usize>) -> Result<Self::SerializeSeq, E> {
        self.ev.push(SEv::Other("serialize_seq"));
        Err(E("a sequence (with length prefix) instead of a fixed-size tuple".into()))
    }
    unsupported! {
        serialize_bool(v: bool) -> ();
        serialize_i8(v: i8) -> (); serialize_i16(v: i16) -> (); serialize_i32(v: i32) -> (); serialize_i64(v: i64) -> ();
        serialize_u16(v: u16) -> (); serialize_u64(v: u64) -> (); serialize_f32(v: f32) -> (); serialize_char(v: char) -> ();
        serialize_bytes(v: &[u8]) -> (); serialize_none() -> (); serialize_unit() -> (); serialize_unit_struct(n: &'static str) -> ();
        serialize_unit_variant(n: &'static str, i: u32, v: &'static str) -> ();
        serialize_tuple_struct(n: &'static str, l: usize) -> ser::Impossible<(), E>;
        serialize_tuple_variant(n: &'static str, i: u32, v: &'static str, l: usize) -> ser::Impossible<(), E>;
        serialize_map(l: Option<usize>) -> ser::Impossible<(), E>;
        serialize_struct(n: &'static str, l: usize) -> ser::Impossible<(), E>;
        serialize_struct_variant(n: &'static str, i: u32, v: &'static str, l: usize) -> ser::Impossible<(), E>;
    }
    fn serialize_some<T: ?Sized + Serialize>(self, _: &T) -> Result<(), E> {
        Err(E("unexpected serialize_some".into()))
    }
    fn serialize_newtype_struct<T: ?Sized + Serialize>(self, _: &'static str, _: &T) -> Result<(), E> {
        Err(E("unexpected newtype".into()))
    }
    fn serialize_newtype_variant<T: ?Sized + Serialize>(self, _: &'static str, _: u32, _: &'static str, _: &T) -> Result<(), E> {
        Err(E("unexpected newtype variant".into()))
    }
}

impl<'a> SerializeTuple for &'a mut Rec {
    type Ok = ();
    type Error = E;
    fn serialize_element<T: ?Sized + Serialize>(&mut self, value: &T) -> Result<(), E> {
        value.serialize(&mut **self)
    }
    fn end(self) -> Result<(), E> {
        self.ev.push(SEv::End);
        Ok(())
    }
}

// ------------------------------------------------------------------------------------------------
// scripted deserializer

#[derive(Clone, Copy, Debug, serde::Serialize, Deserialize, PartialEq, Eq, Hash)]
pub struct Script {
    /// elements the source holds
    pub c: usize,
    /// hint reported before anything is read
    pub upfront: Option<usize>,
    /// later hints: truthful remaining count, or none
    pub later_hints: bool,
    /// the source fails when asked for the element with this index
    pub err_at: Option<usize>,
    /// what the deserializer answers to `is_human_readable()` (serde's default is true)
    #[serde(default = "yes")]
    pub human_readable: bool,
    /// enter through `Deserialize::deserialize_in_place` into an existing array instead of `deserialize`
    #[serde(default)]
    pub in_place: bool,
}

fn yes() -> bool {
    true
}

struct ScriptSeq {
    s: Script,
    delivered: usize,
    hint_calls: std::cell::Cell<usize>,
    base: u32,
}

impl<'de> SeqAccess<'de> for ScriptSeq {
    type Error = E;
    fn next_element_seed<S: DeserializeSeed<'de>>(&mut self, seed: S) -> Result<Option<S::Value>, E> {
        if self.delivered >= self.s.c {
            return Ok(None);
        }
        if self.s.err_at == Some(self.delivered) {
            return Err(E(format!("scripted element error at index {}", self.delivered)));
        }
        let v = self.base + self.delivered as u32;
        self.delivered += 1;
        seed.deserialize(U32Deserializer::<E>::new(v)).map(Some)
    }
    fn size_hint(&self) -> Option<usize> {
        // only the very first call reports the (possibly contradicting) up-front hint; later calls are truthful or absent
        let first = self.hint_calls.get() == 0;
        self.hint_calls.set(self.hint_calls.get() + 1);
        if first && self.delivered == 0 {
            self.s.upfront
        } else if self.s.later_hints {
            Some(self.s.c - self.delivered)
        } else {
            None
        }
    }
}

struct ScriptDe {
    s: Script,
    base: u32,
}

thread_local! {
    /// which Deserializer entry point the array's Deserialize impl used last: (0 none, 1 deserialize_tuple, 2 anything else), with the length passed
    static ENTRY: std::cell::Cell<(u8, usize)> = const { std::cell::Cell::new((0, 0)) };
}

impl<'de> Deserializer<'de> for ScriptDe {
    type Error = E;
    fn is_human_readable(&self) -> bool {
        self.s.human_readable
    }
    fn deserialize_any<V: Visitor<'de>>(self, visitor: V) -> Result<V::Value, E> {
        if ENTRY.with(|e| e.get().0) == 0 {
            ENTRY.with(|e| e.set((2, 0)));
        }
        visitor.visit_seq(ScriptSeq { s: self.s, delivered: 0, hint_calls: std::cell::Cell::new(0), base: self.base })
    }
    fn deserialize_tuple<V: Visitor<'de>>(self, len: usize, visitor: V) -> Result<V::Value, E> {
        ENTRY.with(|e| e.set((1, len)));
        visitor.visit_seq(ScriptSeq { s: self.s, delivered: 0, hint_calls: std::cell::Cell::new(0), base: self.base })
    }
    serde::forward_to_deserialize_any! {
        bool i8 i16 i32 i64 i128 u8 u16 u32 u64 u128 f32 f64 char str string bytes byte_buf option unit unit_struct newtype_struct seq
        tuple_struct map struct enum identifier ignored_any
    }
}

/// answers every request through one chosen `Visitor` method that is not `visit_seq`
struct AltDe<'a> {
    kind: u8,
    bytes: &'a [u8],
}
struct NoEntries;
impl<'de> serde::de::MapAccess<'de> for NoEntries {
    type Error = E;
    fn next_key_seed<K: DeserializeSeed<'de>>(&mut self, _seed: K) -> Result<Option<K::Value>, E> {
        Ok(None)
    }
    fn next_value_seed<V: DeserializeSeed<'de>>(&mut self, _seed: V) -> Result<V::Value, E> {
        Err(E("no value".into()))
    }
}
impl<'de> Deserializer<'de> for AltDe<'de> {
    type Error = E;
    fn deserialize_any<V: Visitor<'de>>(self, visitor: V) -> Result<V::Value, E> {
        let text = || String::from_utf8_lossy(self.bytes).into_owned();
        match self.kind {
            0 => visitor.visit_bytes(&self.bytes.to_vec()),
            1 => visitor.visit_byte_buf(self.bytes.to_vec()),
            2 => visitor.visit_borrowed_bytes(self.bytes),
            3 => visitor.visit_str(&text()),
            4 => visitor.visit_string(text()),
            5 => visitor.visit_map(NoEntries),
            _ => visitor.visit_unit(),
        }
    }
    serde::forward_to_deserialize_any! {
        bool i8 i16 i32 i64 i128 u8 u16 u32 u64 u128 f32 f64 char str string bytes byte_buf option unit unit_struct newtype_struct seq
        tuple tuple_struct map struct enum identifier ignored_any
    }
}

// ------------------------------------------------------------------------------------------------

#[derive(Clone, Copy, Debug, serde::Serialize, Deserialize, PartialEq, Eq, Hash)]
pub enum Ty {
    U8,
    U32,
    F64,
    Str,
    Tracked,
}

#[derive(Clone, Debug, serde::Serialize, Deserialize, PartialEq, Eq, Hash)]
pub enum Op {
    /// recording serializer + JSON / Value / bincode round trips and framing
    Formats(Ty),
    /// JSON list with `len` items offered to an array of length N
    JsonLen(usize),
    /// bincode input truncated to `k` elements
    BincodeTruncated(usize),
    Script(Script),
    /// the same with zero-sized drop-tracked elements
    ScriptZst(Script),
    /// a deserializer that answers `deserialize_tuple(N)` through another `Visitor` method than `visit_seq`, offering `c` elements
    /// (compact binary formats hand byte arrays over as one byte string): kind 0 visit_bytes, 1 visit_byte_buf,
    /// 2 visit_borrowed_bytes, 3 visit_str, 4 visit_string, 5 visit_map (empty, c = 0), 6 visit_unit (c = 0); `u8` elements
    AltEntry(u8, usize),
    /// arrays of 1 MiB and more: 0 = 2 MiB of u64 via bincode, 1 = exactly 1 MiB of u8 via bincode, 2 = 2 MiB of u8 via bincode,
    /// 3 = 2 MiB of u32 from the scripted source with an exact hint, 4 = the same, one element short
    Large(u8),
}

#[derive(Clone, Debug, serde::Serialize, Deserialize, PartialEq, Eq, Hash)]
pub struct Case {
    pub n: usize,
    pub op: Op,
    pub base: u32,
}

fn formats<T, N: ArrayLength>(vals: Vec<T>, expect: Vec<SEv>) -> Result<(), String>
where
    T: Serialize + for<'de> Deserialize<'de> + PartialEq + fmt::Debug + Clone,
{
    let n = N::USIZE;
    let arr: GenericArray<T, N> = GenericArray::from_iter(vals.iter().cloned());
    // recording serializer: tuple(N), N elements in order, end
    let mut rec = Rec::default();
    arr.serialize(&mut rec).map_err(|e| format!("recording serializer: {e} (events {:?})", &rec_head(&rec)))?;
    let mut want = vec![SEv::Tuple(n)];
    want.extend(expect);
    want.push(SEv::End);
    if rec.ev != want {
        return Err(format!("serialises as {:?}..., expected serialize_tuple({n}), {n} elements in index order, end", &rec.ev[..rec.ev.len().min(5)]));
    }
    // JSON equals the JSON of the Vec; round trip
    let js = serde_json::to_string(&arr).map_err(|e| e.to_string())?;
    if js != serde_json::to_string(&vals).unwrap() {
        return Err("JSON text differs from the JSON of the same elements as a list".into());
    }
    let back: GenericArray<T, N> = serde_json::from_str(&js).map_err(|e| format!("JSON round trip failed: {e}"))?;
    if back != arr {
        return Err("JSON round trip returned a different array".into());
    }
    let val = serde_json::to_value(&arr).map_err(|e| e.to_string())?;
    let back: GenericArray<T, N> = serde_json::from_value(val).map_err(|e| format!("serde_json::Value round trip failed: {e}"))?;
    if back != arr {
        return Err("serde_json::Value round trip returned a different array".into());
    }
    // bincode: concatenation of the elements' encodings, no length prefix
    let bytes = bincode::serialize(&arr).map_err(|e| e.to_string())?;
    let mut concat = vec![];
    for v in &vals {
        concat.extend(bincode::serialize(v).unwrap());
    }
    if bytes != concat {
        return Err(format!("bincode encoding is {} bytes, the concatenation of the element encodings is {} bytes (length prefix or framing added?)", bytes.len(), concat.len()));
    }
    let back: GenericArray<T, N> = bincode::deserialize(&bytes).map_err(|e| format!("bincode round trip failed: {e}"))?;
    if back != arr {
        return Err("bincode round trip returned a different array".into());
    }
    Ok(())
}

fn rec_head(r: &Rec) -> Vec<SEv> {
    r.ev.iter().take(4).cloned().collect()
}

fn native_tuple_bytes(n: usize, base: u32) -> Option<Vec<u8>> {
    // bincode of the native tuple with the same u32 elements (arity 1..=12)
    let v = |i: u32| base + i;
    Some(match n {
        1 => bincode::serialize(&(v(0),)).ok()?,
        2 => bincode::serialize(&(v(0), v(1))).ok()?,
        3 => bincode::serialize(&(v(0), v(1), v(2))).ok()?,
        4 => bincode::serialize(&(v(0), v(1), v(2), v(3))).ok()?,
        7 => bincode::serialize(&(v(0), v(1), v(2), v(3), v(4), v(5), v(6))).ok()?,
        12 => bincode::serialize(&(v(0), v(1), v(2), v(3), v(4), v(5), v(6), v(7), v(8), v(9), v(10), v(11))).ok()?,
        _ => return None,
    })
}

fn exec_n<N: ArrayLength>(case: &Case, acc: &mut Acc) -> Result<(), String> {
    let n = N::USIZE;
    let base = case.base;
    registry::reset();
    match &case.op {
        Op::Formats(ty) => {
            match ty {
                Ty::U8 => {
                    let v: Vec<u8> = (0..n).map(|i| (base as usize + i * 7) as u8).collect();
                    let e = v.iter().map(|x| SEv::Elem(*x as u64)).collect();
                    formats::<u8, N>(v, e)?
                }
                Ty::U32 => {
                    let v: Vec<u32> = (0..n as u32).map(|i| base + i).collect();
                    let e = v.iter().map(|x| SEv::Elem(*x as u64)).collect();
                    formats::<u32, N>(v.clone(), e)?;
                    if let Some(t) = native_tuple_bytes(n, base) {
                        let arr: GenericArray<u32, N> = GenericArray::from_iter(v.iter().copied());
                        if bincode::serialize(&arr).unwrap() != t {
                            return Err("bincode encoding differs from the native tuple of the same elements".into());
                        }
                    }
                }
                Ty::F64 => {
                    let v: Vec<f64> = (0..n).map(|i| (base as f64 + i as f64) * 0.5 - 3.0).collect();
                    let e = v.iter().map(|x| SEv::Elem(x.to_bits())).collect();
                    formats::<f64, N>(v, e)?
                }
                Ty::Str => {
                    let v: Vec<String> = (0..n).map(|i| format!("s{}\"\\{}", base, i)).collect();
                    let e = v.iter().map(|x| SEv::Str(x.clone())).collect();
                    formats::<String, N>(v, e)?
                }
                Ty::Tracked => {
                    let v: Vec<Tracked> = (0..n as u32).map(|i| Tracked::new(base + i)).collect();
                    let e = v.iter().map(|x| SEv::Elem(x.observe() as u64)).collect();
                    formats::<Tracked, N>(v, e)?
                }
            }
            acc.count(n >= 1, case);
            acc.class("format_roundtrips");
        }
        Op::JsonLen(len) => {
            let items: Vec<u32> = (0..*len as u32).map(|i| base + i).collect();
            let js = serde_json::to_string(&items).unwrap();
            let r: Result<GenericArray<Tracked, N>, _> = serde_json::from_str(&js);
            match r {
                Ok(a) => {
                    if *len != n {
                        return Err(format!("a JSON list of {len} items was accepted for N = {n}"));
                    }
                    if a.iter().map(|x| x.observe()).collect::<Vec<_>>() != items {
                        return Err("JSON list deserialised to different contents".into());
                    }
                }
                Err(_) => {
                    if *len == n {
                        return Err(format!("a JSON list of exactly N = {n} items was rejected"));
                    }
                    if registry::live() != 0 {
                        return Err(format!("JSON list of {len} items rejected for N = {n}, but {} elements already read were not dropped", registry::live()));
                    }
                }
            }
            // the same through serde_json::Value (exact size hints)
            let r: Result<GenericArray<Tracked, N>, _> = serde_json::from_value(serde_json::to_value(&items).unwrap());
            if r.is_ok() != (*len == n) {
                return Err(format!("a serde_json::Value list of {len} items: accepted = {} for N = {n}", r.is_ok()));
            }
            drop(r);
            acc.count(*len != n, case);
            acc.class(if *len < n { "json_too_short" } else if *len == n { "json_exact" } else { "json_too_long" });
        }
        Op::BincodeTruncated(k) => {
            let items: Vec<u32> = (0..n as u32).map(|i| base + i).collect();
            let arr: GenericArray<u32, N> = GenericArray::from_iter(items.iter().copied());
            let bytes = bincode::serialize(&arr).unwrap();
            let cut = &bytes[..(*k * 4).min(bytes.len())];
            let r: Result<GenericArray<Tracked, N>, _> = bincode::deserialize(cut);
            if r.is_ok() != (*k >= n) {
                return Err(format!("bincode input truncated to {k} of {n} elements: accepted = {}", r.is_ok()));
            }
            if r.is_err() && registry::live() != 0 {
                return Err(format!("truncated bincode input rejected, but {} elements already read were not dropped", registry::live()));
            }
            drop(r);
            acc.count(*k < n, case);
            acc.class("bincode_truncated");
        }
        Op::Script(s) => {
            ENTRY.with(|e| e.set((0, 0)));
            let r = engine::catch(|| {
                if s.in_place {
                    // the array to be overwritten holds N elements of its own; they must be dropped exactly once too
                    let mut place: GenericArray<Tracked, N> = GenericArray::from_iter((0..n as u32).map(|i| Tracked::new(700_000 + i)));
                    Deserialize::deserialize_in_place(ScriptDe { s: *s, base }, &mut place).map(|()| place)
                } else {
                    GenericArray::<Tracked, N>::deserialize(ScriptDe { s: *s, base })
                }
            });
            let r = match r {
                Ok(r) => r,
                Err(c) => return Err(format!("deserialisation panicked instead of returning a result: {}", c.msg)),
            };
            // a fixed-size tuple: a format that is not self-describing can only hand it out through deserialize_tuple(N)
            let entry = ENTRY.with(|e| e.get());
            if entry != (1, n) {
                return Err(format!("the array asked the deserializer for {} instead of deserialize_tuple({n})", if entry.0 == 1 { format!("deserialize_tuple({})", entry.1) } else { "another kind of value (not a tuple)".into() }));
            }
            let hint_ok = s.upfront.is_none() || s.upfront == Some(n);
            let expect_ok = hint_ok && s.c == n && s.err_at.map(|e| e >= n).unwrap_or(true);
            match r {
                Ok(a) => {
                    if !expect_ok {
                        return Err(format!("accepted although the source offered {} elements (up-front hint {:?}, element error at {:?}) for N = {n}", s.c, s.upfront, s.err_at));
                    }
                    let want: Vec<u32> = (0..n as u32).map(|i| base + i).collect();
                    if a.iter().map(|x| x.observe()).collect::<Vec<_>>() != want {
                        return Err("deserialised array differs from the elements delivered, in order".into());
                    }
                }
                Err(_) => {
                    if expect_ok {
                        return Err(format!("rejected a source that delivered exactly N = {n} elements (up-front hint {:?})", s.upfront));
                    }
                    if registry::live() != 0 {
                        return Err(format!("rejected, but {} of the {} elements already read were not dropped (partially filled array leaked)", registry::live(), registry::created()));
                    }
                }
            }
            let nontrivial = !expect_ok;
            acc.count(nontrivial, case);
            acc.class(if expect_ok { "script_accept" } else if !hint_ok { "script_reject_upfront_hint" } else if s.c != n { "script_reject_count" } else { "script_reject_element_error" });
        }
        Op::AltEntry(kind, c) => {
            let c = if *kind >= 5 { 0 } else { *c };
            let bytes: Vec<u8> = (0..c).map(|i| b'a' + ((base as usize + i) % 26) as u8).collect();
            let r = engine::catch(|| GenericArray::<u8, N>::deserialize(AltDe { kind: *kind, bytes: &bytes }));
            let r = match r {
                Ok(r) => r,
                Err(c) => return Err(format!("deserialisation panicked instead of returning a result: {}", c.msg)),
            };
            // whether such input is understood at all is the implementation's choice; what it may never do is hand back an array
            // for input that offers another number of elements than N, or other elements than were offered
            if let Ok(a) = r {
                if c != n {
                    return Err(format!("accepted input offering {c} elements (through Visitor method #{kind}, see Op::AltEntry) for N = {n}"));
                }
                if a.as_slice() != &bytes[..] {
                    return Err("the array returned differs from the elements offered".into());
                }
            }
            acc.count(c != n, case);
            acc.class("other_visitor_entry_points");
        }
        Op::ScriptZst(s) => {
            let r = engine::catch(|| GenericArray::<TrackedZst, N>::deserialize(ScriptDe { s: *s, base }));
            let r = match r {
                Ok(r) => r,
                Err(c) => return Err(format!("deserialisation panicked instead of returning a result: {}", c.msg)),
            };
            let hint_ok = s.upfront.is_none() || s.upfront == Some(n);
            let expect_ok = hint_ok && s.c == n && s.err_at.map(|e| e >= n).unwrap_or(true);
            match r {
                Ok(a) => {
                    if !expect_ok {
                        return Err(format!("accepted although the source offered {} elements (up-front hint {:?}, element error at {:?}) for N = {n}", s.c, s.upfront, s.err_at));
                    }
                    if a.len() != n {
                        return Err("deserialised array has the wrong length".into());
                    }
                }
                Err(_) => {
                    if expect_ok {
                        return Err(format!("rejected a source that delivered exactly N = {n} elements (up-front hint {:?})", s.upfront));
                    }
                    let (made, gone) = registry::zst_counts();
                    if made != gone {
                        return Err(format!("rejected, but {} of the {made} zero-sized elements already read were not dropped", made - gone));
                    }
                }
            }
            let nontrivial = !expect_ok;
            acc.count(nontrivial, case);
            acc.class(if expect_ok { "script_zst_accept" } else if !hint_ok { "script_zst_reject_upfront_hint" } else if s.c != n { "script_zst_reject_count" } else { "script_zst_reject_element_error" });
        }
        Op::Large(_) => unreachable!(),
    }
    engine::end_case(false)
}

fn large(which: u8, base: u32, acc: &mut Acc, case: &Case) -> Result<(), String> {
    fn bincode_rt<T, N: ArrayLength>(mk: impl Fn(usize) -> T) -> Result<(), String>
    where
        T: Serialize + for<'de> Deserialize<'de> + PartialEq,
    {
        let arr: Box<GenericArray<T, N>> = (0..N::USIZE).map(&mk).collect();
        let bytes = bincode::serialize(&*arr).map_err(|e| e.to_string())?;
        if bytes.len() != N::USIZE * core::mem::size_of::<T>() {
            return Err(format!("bincode encoding of {} elements is {} bytes", N::USIZE, bytes.len()));
        }
        let back: GenericArray<T, N> = bincode::deserialize(&bytes).map_err(|e| format!("bincode round trip of an array of {} bytes failed: {e}", bytes.len()))?;
        if back != *arr {
            return Err("bincode round trip of a large array returned different contents".into());
        }
        Ok(())
    }
    registry::reset();
    match which {
        0 => bincode_rt::<u64, U262144>(|i| i as u64 ^ base as u64)?,
        1 => bincode_rt::<u8, U1048576>(|i| (i as u32 ^ base) as u8)?,
        2 => bincode_rt::<u8, U2097152>(|i| (i as u32 ^ base) as u8)?,
        _ => {
            let n = 524288usize;
            let c = if which == 3 { n } else { n - 1 };
            let s = Script { c, upfront: Some(c), later_hints: true, err_at: None, human_readable: which == 3, in_place: false };
            let r = GenericArray::<u32, U524288>::deserialize(ScriptDe { s, base });
            match (which, r) {
                (3, Ok(a)) => {
                    if a[0] != base || a[n - 1] != base + (n as u32 - 1) {
                        return Err("large scripted deserialisation returned different contents".into());
                    }
                }
                (3, Err(e)) => return Err(format!("a truthful source with an exact hint of N = {n} elements (2 MiB) was rejected: {e}")),
                (_, Ok(_)) => return Err("a source one element short was accepted".into()),
                (_, Err(_)) => {}
            }
        }
    }
    acc.count(true, case);
    acc.class("arrays_of_1MiB_and_more");
    Ok(())
}

pub fn exec(case: &Case, acc: &mut Acc) -> Result<(), String> {
    if let Op::Large(w) = case.op {
        return large(w, case.base, acc, case);
    }
    with_lat!(case.n, N, exec_n::<N>(case, acc))
}

pub fn main() {
    let args = Args::parse();
    engine::install_hook();
    engine::maybe_replay_many::<Case>(PROP, &args, exec);
    let started = std::time::Instant::now();
    if let Some(p) = &args.replay {
        let case: Case = engine::load_replay(p);
        let mut acc = Acc::new();
        let r = engine::catch(|| exec(&case, &mut acc)).unwrap_or_else(|c| Err(format!("panic: {}", c.msg)));
        engine::finish_replay(PROP, p, r);
    }
    let draws = args.scale(4, 5) as u32;
    let mut g = vec![];
    let mut x = args.seed.wrapping_mul(0x9E37_79B9_7F4A_7C15) | 1;
    let mut rnd = move || {
        x ^= x << 13;
        x ^= x >> 7;
        x ^= x << 17;
        (x >> 24) as u32 & 0xfffff
    };
    for &n in harness::lens::LAT {
        for _ in 0..draws {
            for ty in [Ty::U8, Ty::U32, Ty::F64, Ty::Str, Ty::Tracked] {
                g.push(Case { n, op: Op::Formats(ty), base: rnd() });
            }
            for len in [0, n.saturating_sub(1), n, n + 1, n + 2] {
                g.push(Case { n, op: Op::JsonLen(len), base: rnd() });
            }
        }
        let ks: Vec<usize> = if n <= 33 { (0..=n).collect() } else { vec![0, 1, n / 2, n - 1, n] };
        for k in ks {
            g.push(Case { n, op: Op::BincodeTruncated(k), base: rnd() });
        }
        let cs: Vec<usize> = if n <= 12 { (0..=n + 2).collect() } else { vec![0, n - 1, n, n + 1, n + 2] };
        for kind in 0..7u8 {
            for &c in &cs {
                if kind < 5 || c == 0 {
                    g.push(Case { n, op: Op::AltEntry(kind, c), base: rnd() });
                }
            }
        }
        for c in cs {
            for upfront in [None, Some(n), Some(n.saturating_sub(1)), Some(n + 1), Some(c), Some(0)] {
                for later_hints in [false, true] {
                    let errs: Vec<Option<usize>> = if n <= 12 {
                        std::iter::once(None).chain((0..=c.min(n + 1)).map(Some)).collect()
                    } else {
                        vec![None, Some(0), Some(n / 2), Some(n - 1), Some(n), Some(n + 1)]
                    };
                    for err_at in errs {
                        g.push(Case { n, op: Op::Script(Script { c, upfront, later_hints, err_at, human_readable: true, in_place: false }), base: rnd() });
                        if n <= 33 {
                            g.push(Case { n, op: Op::ScriptZst(Script { c, upfront, later_hints, err_at, human_readable: true, in_place: false }), base: rnd() });
                            g.push(Case { n, op: Op::Script(Script { c, upfront, later_hints, err_at, human_readable: false, in_place: false }), base: rnd() });
                            g.push(Case { n, op: Op::Script(Script { c, upfront, later_hints, err_at, human_readable: true, in_place: true }), base: rnd() });
                            g.push(Case { n, op: Op::Script(Script { c, upfront, later_hints, err_at, human_readable: false, in_place: true }), base: rnd() });
                        }
                    }
                }
            }
        }
    }
    for w in 0..5u8 {
        g.push(Case { n: 0, op: Op::Large(w), base: rnd() });
    }
    let acc = engine::parallel(&args, PROP, |w, workers, acc| {
        for (i, c) in g.iter().enumerate() {
            if i % workers == w {
                acc.run(c, exec);
            }
        }
    });
    engine::finish(
        &args,
        started,
        acc,
        Report {
            prop: PROP,
            level: "exploration",
            rule: "case = (N in the 34-length lattice, operation, seeded values). Formats: a recording Serializer must see serialize_tuple(N), exactly N elements in index order, end; bincode bytes must equal the concatenation of the element encodings (and the native tuple's for arities 1,2,3,4,7,12); JSON must equal the JSON of the Vec; JSON text, serde_json::Value and bincode round trips for u8/u32/f64/String/drop-tracked elements. Rejection: JSON lists with 0, N-1, N, N+1, N+2 items (text and Value), bincode input truncated at every element boundary, and a scripted deserializer delivering every count 0..=N+2 with every up-front hint (none, N, N-1, N+1, the true count, 0), truthful or absent later hints, an element error at every index, a deserializer that calls itself human-readable or not, entry through deserialize and through deserialize_in_place (24-byte and zero-sized drop-tracked elements); a deserializer that answers deserialize_tuple(N) through visit_bytes / visit_byte_buf / visit_borrowed_bytes / visit_str / visit_string / an empty visit_map / visit_unit offering every count 0..=N+2 (u8 elements: an array may come back only for exactly N elements, and then holds them); arrays of 1 MiB and 2 MiB through bincode and through the scripted source with an exact hint. \
                   Oracle: Ok iff (up-front hint absent or = N) and count = N and no error at a reached index; on Err every element the source produced has been dropped and nothing is returned; deserialisation never panics. \
                   non-trivial = rejecting cases and round trips with N >= 1; distinct = distinct case tuples",
            exhaustive: false,
            assumptions: vec!["a source that reports 'nothing left' while still holding elements is outside the claim and not generated".into()],
            extra: serde_json::json!({}),
        },
    );
}
