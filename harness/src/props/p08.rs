//! C08 - generate/map/zip/fold/clone/default apply the function once per index, in order, for every receiver form.

use generic_array::functional::FunctionalSequence;
use generic_array::sequence::GenericSequence;
use generic_array::{ArrayLength, GenericArray};
use harness::engine::{self, Acc, Args, Report};
use harness::len_match;
use harness::registry::{self, pk, Elem, Peek, Tracked, TrackedZst};
use serde::{Deserialize, Serialize};
use std::cell::RefCell;

pub const PROP: &str = "C08";

thread_local! {
    static CLONE_LOG: RefCell<Vec<u32>> = const { RefCell::new(vec![]) };
}

/// No drop glue, but a Clone that is observable (bumps a generation and logs the call).
#[derive(Debug, PartialEq)]
pub struct Gen {
    v: u32,
    generation: u32,
    /// how often `clone` was called on this very value (interior mutability: a clone taken from a bitwise duplicate of the
    /// element leaves the element's own counter untouched)
    cloned: std::cell::Cell<u32>,
}
impl Clone for Gen {
    fn clone(&self) -> Gen {
        CLONE_LOG.with(|l| l.borrow_mut().push(self.v));
        self.cloned.set(self.cloned.get() + 1);
        Gen { v: self.v, generation: self.generation + 1, cloned: std::cell::Cell::new(0) }
    }
}
impl Default for Gen {
    fn default() -> Gen {
        CLONE_LOG.with(|l| l.borrow_mut().push(u32::MAX));
        Gen { v: 0, generation: 100, cloned: std::cell::Cell::new(0) }
    }
}
impl Elem for Gen {
    const KIND: &'static str = "gen_no_drop_glue";
    const NEEDS_DROP: bool = false;
    fn mk(v: u32) -> Self {
        Gen { v, generation: 0, cloned: std::cell::Cell::new(0) }
    }
    fn get(&self) -> u32 {
        self.v
    }
}
impl Peek for Gen {
    fn peek(&self) -> u32 {
        self.v
    }
}

/// Zero-sized, no drop glue, observable Clone/Default: an array of these could be conjured without calling anything
#[derive(Debug, PartialEq)]
pub struct Uz;
impl Clone for Uz {
    fn clone(&self) -> Uz {
        CLONE_LOG.with(|l| l.borrow_mut().push(0));
        Uz
    }
}
impl Default for Uz {
    fn default() -> Uz {
        CLONE_LOG.with(|l| l.borrow_mut().push(u32::MAX));
        Uz
    }
}
impl Elem for Uz {
    const KIND: &'static str = "zst_no_drop_glue";
    const NEEDS_DROP: bool = false;
    fn mk(_: u32) -> Self {
        Uz
    }
    fn get(&self) -> u32 {
        0
    }
    fn norm(_: u32) -> u32 {
        0
    }
}
impl Peek for Uz {
    fn peek(&self) -> u32 {
        0
    }
}

#[derive(Clone, Copy, Debug, Serialize, Deserialize, PartialEq, Eq, Hash)]
pub enum Kind {
    U32,
    Str,
    Tracked,
    Zst,
    Gen,
    Uz,
}

#[derive(Clone, Copy, Debug, Serialize, Deserialize, PartialEq, Eq, Hash)]
pub enum Op {
    /// 0 owned, 1 via &GenericArray, 2 via &mut GenericArray, 3 boxed
    Generate(u8),
    Map(u8),
    /// lhs*3+rhs over {owned, &, &mut}; 9 = boxed x boxed
    Zip(u8),
    Fold(u8),
    Clone(u8),
    Default(u8),
    /// map / zip whose *output* element type is `()` (zero-sized, no destructor) while the inputs are of the case's kind
    MapToUnit(u8),
    ZipToUnit(u8),
    /// map (four receiver forms) into an output element type of another size / alignment than the input's:
    /// selector 0 u64, 1 (u32, u32), 2 [u32; 4], 3 u8, 4 u16, 5 String, 6 (T-value, u64) pair with a 24-byte String inside
    MapResize(u8, u8),
}

#[derive(Clone, Debug, Serialize, Deserialize, PartialEq, Eq, Hash)]
pub struct Case {
    pub n: usize,
    pub kind: Kind,
    pub op: Op,
    pub salt: u32,
    /// 0: the typenum alias of `n`; k > 0: the k-th hand-spelled length with leading zero digits (`lens::DENORM`), value `n`
    #[serde(default)]
    pub denorm: u8,
}

fn mixi(i: usize, a: u32, b: u32) -> u32 {
    (i as u32).wrapping_mul(0x9E37).wrapping_add(a.wrapping_mul(31)).wrapping_add(b.wrapping_mul(17)) & 0x0fff_ffff
}

fn check_log(what: &str, got: &[(usize, u32, u32)], want: &[(usize, u32, u32)]) -> Result<(), String> {
    if got != want {
        let pos = got.iter().zip(want.iter()).position(|(g, w)| g != w).unwrap_or(got.len().min(want.len()));
        return Err(format!(
            "{what}: closure call log differs at call #{pos}: got {} calls, expected {}; got[{pos}] = {:?}, expected {:?}",
            got.len(),
            want.len(),
            got.get(pos),
            want.get(pos)
        ));
    }
    Ok(())
}

fn vals<T: Elem>(s: &[T]) -> Vec<u32> {
    s.iter().map(|x| x.get()).collect()
}

fn exec_typed<T: Elem + Peek + Clone + Default + 'static, N: ArrayLength>(case: &Case, acc: &mut Acc) -> Result<(), String> {
    registry::reset();
    CLONE_LOG.with(|l| l.borrow_mut().clear());
    let n = N::USIZE;
    let salt = case.salt;
    let av: Vec<u32> = (0..n).map(|i| T::norm(salt.wrapping_add(i as u32 * 7 + 1))).collect();
    let bv: Vec<u32> = (0..n).map(|i| T::norm(salt.wrapping_mul(3).wrapping_add(i as u32 * 13 + 5))).collect();
    let mk_a = || -> GenericArray<T, N> { GenericArray::from_iter(av.iter().map(|v| T::mk(*v))) };
    let mk_b = || -> GenericArray<T, N> { GenericArray::from_iter(bv.iter().map(|v| T::mk(*v))) };
    let mut log: Vec<(usize, u32, u32)> = vec![];
    let what = format!("{:?} on N={n} kind={}", case.op, T::KIND);
    match case.op {
        Op::Generate(f) => {
            let mut calls = 0usize;
            let g = |i: usize| {
                log.push((calls, i as u32, 0));
                calls += 1;
                T::mk(mixi(calls, i as u32, salt))
            };
            let got: Vec<u32> = match f {
                0 => vals(&GenericArray::<T, N>::generate(g)),
                1 => vals(&<&GenericArray<T, N> as GenericSequence<T>>::generate(g)),
                2 => vals(&<&mut GenericArray<T, N> as GenericSequence<T>>::generate(g)),
                _ => vals(&Box::<GenericArray<T, N>>::generate(g)[..]),
            };
            let want_log: Vec<(usize, u32, u32)> = (0..n).map(|i| (i, i as u32, 0)).collect();
            check_log(&what, &log, &want_log)?;
            let want: Vec<u32> = (0..n).map(|i| T::norm(mixi(i + 1, i as u32, salt))).collect();
            if got != want {
                return Err(format!("{what}: result i is not f(i): {:?} vs {:?}", &got[..got.len().min(6)], &want[..want.len().min(6)]));
            }
        }
        Op::Map(f) => {
            let mut a = mk_a();
            let mut calls = 0usize;
            macro_rules! body {
                () => {
                    |x| {
                        let v = pk(&x);
                        log.push((calls, v, 0));
                        calls += 1;
                        drop(x);
                        T::mk(mixi(calls, v, salt))
                    }
                };
            }
            let got: Vec<u32> = match f {
                0 => vals(&a.map(body!())),
                1 => vals(&(&a).map(body!())),
                2 => vals(&(&mut a).map(body!())),
                _ => vals(&Box::new(a).map(body!())[..]),
            };
            let want_log: Vec<(usize, u32, u32)> = (0..n).map(|i| (i, av[i], 0)).collect();
            check_log(&what, &log, &want_log)?;
            let want: Vec<u32> = (0..n).map(|i| T::norm(mixi(i + 1, av[i], salt))).collect();
            if got != want {
                return Err(format!("{what}: result i is not f(a[i]): {:?} vs {:?}", &got[..got.len().min(6)], &want[..want.len().min(6)]));
            }
        }
        Op::Zip(f) => {
            let mut a = mk_a();
            let mut b = mk_b();
            let mut calls = 0usize;
            macro_rules! body {
                () => {
                    |l, r| {
                        let (lv, rv) = (pk(&l), pk(&r));
                        log.push((calls, lv, rv));
                        calls += 1;
                        drop((l, r));
                        T::mk(mixi(calls, lv, rv))
                    }
                };
            }
            let got: Vec<u32> = match f {
                0 => vals(&a.zip(b, body!())),
                1 => vals(&a.zip(&b, body!())),
                2 => vals(&a.zip(&mut b, body!())),
                3 => vals(&(&a).zip(b, body!())),
                4 => vals(&(&a).zip(&b, body!())),
                5 => vals(&(&a).zip(&mut b, body!())),
                6 => vals(&(&mut a).zip(b, body!())),
                7 => vals(&(&mut a).zip(&b, body!())),
                8 => vals(&(&mut a).zip(&mut b, body!())),
                _ => vals(&Box::new(a).zip(Box::new(b), body!())[..]),
            };
            let want_log: Vec<(usize, u32, u32)> = (0..n).map(|i| (i, av[i], bv[i])).collect();
            check_log(&what, &log, &want_log)?;
            let want: Vec<u32> = (0..n).map(|i| T::norm(mixi(i + 1, av[i], bv[i]))).collect();
            if got != want {
                return Err(format!("{what}: result i is not f(a[i], b[i]): {:?} vs {:?}", &got[..got.len().min(6)], &want[..want.len().min(6)]));
            }
        }
        Op::MapToUnit(f) => {
            let mut a = mk_a();
            let mut calls = 0usize;
            macro_rules! body {
                () => {
                    |x| {
                        let v = pk(&x);
                        log.push((calls, v, 0));
                        calls += 1;
                        drop(x);
                    }
                };
            }
            let got: usize = match f {
                0 => a.map(body!()).len(),
                1 => (&a).map(body!()).len(),
                2 => (&mut a).map(body!()).len(),
                _ => Box::new(a).map(body!()).len(),
            };
            let want_log: Vec<(usize, u32, u32)> = (0..n).map(|i| (i, av[i], 0)).collect();
            check_log(&what, &log, &want_log)?;
            if got != n {
                return Err(format!("{what}: result has {got} elements"));
            }
        }
        Op::MapResize(..) => unreachable!(),
        Op::ZipToUnit(f) => {
            let mut a = mk_a();
            let mut b = mk_b();
            let mut calls = 0usize;
            macro_rules! body {
                () => {
                    |l, r| {
                        let (lv, rv) = (pk(&l), pk(&r));
                        log.push((calls, lv, rv));
                        calls += 1;
                        drop((l, r));
                    }
                };
            }
            let got: usize = match f {
                0 => a.zip(b, body!()).len(),
                1 => a.zip(&b, body!()).len(),
                2 => a.zip(&mut b, body!()).len(),
                3 => (&a).zip(b, body!()).len(),
                4 => (&a).zip(&b, body!()).len(),
                5 => (&a).zip(&mut b, body!()).len(),
                6 => (&mut a).zip(b, body!()).len(),
                7 => (&mut a).zip(&b, body!()).len(),
                8 => (&mut a).zip(&mut b, body!()).len(),
                _ => Box::new(a).zip(Box::new(b), body!()).len(),
            };
            let want_log: Vec<(usize, u32, u32)> = (0..n).map(|i| (i, av[i], bv[i])).collect();
            check_log(&what, &log, &want_log)?;
            if got != n {
                return Err(format!("{what}: result has {got} elements"));
            }
        }
        Op::Fold(f) => {
            let mut a = mk_a();
            let mut calls = 0usize;
            macro_rules! body {
                () => {
                    |acc: u32, x| {
                        let v = pk(&x);
                        log.push((calls, acc, v));
                        calls += 1;
                        drop(x);
                        mixi(calls, acc, v)
                    }
                };
            }
            let got = match f {
                0 => a.fold(salt, body!()),
                1 => (&a).fold(salt, body!()),
                2 => (&mut a).fold(salt, body!()),
                _ => Box::new(a).fold(salt, body!()),
            };
            let mut accv = salt;
            let mut want_log = vec![];
            for i in 0..n {
                want_log.push((i, accv, av[i]));
                accv = mixi(i + 1, accv, av[i]);
            }
            check_log(&what, &log, &want_log)?;
            if got != accv {
                return Err(format!("{what}: fold result {got} differs from the left fold {accv}"));
            }
        }
        Op::Clone(f) => {
            let a = mk_a();
            let first_new_id = registry::created() as u32;
            let c: Vec<(u32, Option<u32>)> = match f {
                0 => {
                    let c = a.clone();
                    if let Some(bad) = a.iter().position(|x| (x as &dyn std::any::Any).downcast_ref::<Gen>().map(|g| g.cloned.get() != 1).unwrap_or(false)) {
                        return Err(format!("{what}: T::clone was not called on the array's own element #{bad} (its per-value clone counter is not 1)"));
                    }
                    c.iter().map(|x| (x.get(), ident(x))).collect()
                }
                // clone_from into an existing array (2 stack, 3 boxed): the destination ends up as the element-wise clone
                2 | 3 => {
                    let dst = mk_b();
                    CLONE_LOG.with(|l| l.borrow_mut().clear());
                    let calls_before = registry::calls();
                    let first = registry::created() as u32;
                    let r: Vec<(u32, Option<u32>)> = if f == 2 {
                        let mut dst = dst;
                        dst.clone_from(&a);
                        dst.iter().map(|x| (x.get(), ident(x))).collect()
                    } else {
                        let (mut dst, src) = (Box::new(dst), Box::new(mk_a()));
                        CLONE_LOG.with(|l| l.borrow_mut().clear());
                        let _ = calls_before;
                        dst.clone_from(&src);
                        dst.iter().map(|x| (x.get(), ident(x))).collect()
                    };
                    let got: Vec<u32> = r.iter().map(|x| x.0).collect();
                    if got != av {
                        return Err(format!("{what}: after clone_from the destination differs from the source: {:?} vs {:?}", &got[..got.len().min(6)], &av[..av.len().min(6)]));
                    }
                    if T::KIND == "gen_no_drop_glue" || T::KIND == "zst_no_drop_glue" {
                        let l = CLONE_LOG.with(|l| l.borrow().clone());
                        if l != av {
                            return Err(format!("{what}: clone_from: T::clone call log {:?}, expected one call per element in index order {:?}", &l[..l.len().min(8)], &av[..av.len().min(8)]));
                        }
                    }
                    if T::KIND == "tracked" && f == 2 {
                        // the clones are new values (fresh identities), not the source's elements
                        if r.iter().any(|x| x.1.map(|id| id < first).unwrap_or(false)) {
                            return Err(format!("{what}: clone_from left elements in the destination that are not fresh clones"));
                        }
                    }
                    drop(a);
                    engine::end_case(false)?;
                    acc.count(n >= 2, case);
                    acc.class(&format!("kind_{}", T::KIND));
                    return Ok(());
                }
                _ => {
                    let a = Box::new(a);
                    let c = a.clone();
                    let r = c.iter().map(|x| (x.get(), ident(x))).collect();
                    drop(a);
                    r
                }
            };
            let got: Vec<u32> = c.iter().map(|x| x.0).collect();
            if got != av {
                return Err(format!("{what}: clone differs from the source: {:?} vs {:?}", &got[..got.len().min(6)], &av[..av.len().min(6)]));
            }
            // order and count of T::clone calls
            if T::KIND == "tracked" {
                let ids: Vec<u32> = c.iter().filter_map(|x| x.1).collect();
                let want: Vec<u32> = (0..n as u32).map(|i| first_new_id + i).collect();
                if ids != want {
                    return Err(format!("{what}: T::clone was not called once per index in ascending order (identities of the clones: {:?})", &ids[..ids.len().min(8)]));
                }
            }
            if T::KIND == "gen_no_drop_glue" || T::KIND == "zst_no_drop_glue" {
                let l = CLONE_LOG.with(|l| l.borrow().clone());
                if l != av {
                    return Err(format!("{what}: T::clone call log {:?}, expected one call per element in index order {:?}", &l[..l.len().min(8)], &av[..av.len().min(8)]));
                }
            }
            if T::KIND == "tracked" || T::KIND == "tracked_zst" {
                if registry::calls() != n as u64 {
                    return Err(format!("{what}: T::clone was called {} times, expected {n}", registry::calls()));
                }
            }
        }
        Op::Default(f) => {
            let first_new_id = registry::created() as u32;
            let d: Vec<(u32, Option<u32>)> = match f {
                0 => GenericArray::<T, N>::default().iter().map(|x| (x.get(), ident(x))).collect(),
                _ => GenericArray::<T, N>::default_boxed().iter().map(|x| (x.get(), ident(x))).collect(),
            };
            let want = T::default().get();
            if d.len() != n || d.iter().any(|x| x.0 != want) {
                return Err(format!("{what}: default array is not N copies of T::default()"));
            }
            if T::KIND == "tracked" {
                let ids: Vec<u32> = d.iter().filter_map(|x| x.1).collect();
                let w: Vec<u32> = (0..n as u32).map(|i| first_new_id + i).collect();
                if ids != w {
                    return Err(format!("{what}: T::default was not called once per index in ascending order (identities: {:?})", &ids[..ids.len().min(8)]));
                }
            }
            if T::KIND == "tracked" || T::KIND == "tracked_zst" {
                // +1 for the reference T::default() above
                if registry::calls() != n as u64 + 1 {
                    return Err(format!("{what}: T::default was called {} times, expected {n}", registry::calls() - 1));
                }
            }
            if T::KIND == "gen_no_drop_glue" || T::KIND == "zst_no_drop_glue" {
                let l = CLONE_LOG.with(|l| l.borrow().len());
                if l != n + 1 {
                    return Err(format!("{what}: T::default was called {} times, expected {n}", l - 1));
                }
            }
        }
    }
    engine::end_case(false)?;
    acc.count(n >= 2, case);
    acc.class(&format!("kind_{}", T::KIND));
    Ok(())
}

/// map into an output element type of another size / alignment (instantiated for fewer lengths than the other operations)
fn exec_resize<T: Elem + Peek + Clone + Default + 'static, N: ArrayLength>(case: &Case, acc: &mut Acc) -> Result<(), String> {
    registry::reset();
    let n = N::USIZE;
    let salt = case.salt;
    let av: Vec<u32> = (0..n).map(|i| T::norm(salt.wrapping_add(i as u32 * 7 + 1))).collect();
    let mk_a = || -> GenericArray<T, N> { GenericArray::from_iter(av.iter().map(|v| T::mk(*v))) };
    let mut log: Vec<(usize, u32, u32)> = vec![];
    let what = format!("{:?} on N={n} kind={}", case.op, T::KIND);
    let Op::MapResize(f, sel) = case.op else { unreachable!() };
            // the closure numbers its calls; the output carries (call number, input value) so that order and pairing are visible in the result too
            macro_rules! run {
                ($mk:expr, $rd:expr) => {{
                    let mut a = mk_a();
                    let mut calls = 0u32;
                    macro_rules! body {
                        () => {
                            |x| {
                                let v = pk(&x);
                                log.push((calls as usize, v, 0));
                                calls += 1;
                                drop(x);
                                $mk(calls, v)
                            }
                        };
                    }
                    let got: Vec<(u32, u32)> = match f {
                        0 => a.map(body!()).iter().map($rd).collect(),
                        1 => (&a).map(body!()).iter().map($rd).collect(),
                        2 => (&mut a).map(body!()).iter().map($rd).collect(),
                        _ => Box::new(a).map(body!()).iter().map($rd).collect(),
                    };
                    got
                }};
            }
            let got: Vec<(u32, u32)> = match sel % 7 {
                0 => run!(|c: u32, v: u32| ((c as u64) << 32) | v as u64, |o: &u64| ((*o >> 32) as u32, *o as u32)),
                1 => run!(|c: u32, v: u32| (c, v), |o: &(u32, u32)| *o),
                2 => run!(|c: u32, v: u32| [c, v, c ^ v, 7], |o: &[u32; 4]| (o[0], o[1])),
                3 => run!(|c: u32, _v: u32| c as u8, |o: &u8| (*o as u32, 0)),
                4 => run!(|c: u32, v: u32| (c as u16) ^ ((v as u16) << 8), |o: &u16| ((*o & 0xff) as u32, 0)),
                5 => run!(|c: u32, v: u32| format!("{c}:{v}"), |o: &String| { let (a, b) = o.split_once(':').unwrap(); (a.parse().unwrap(), b.parse().unwrap()) }),
                _ => run!(|c: u32, v: u32| (format!("{v}"), c as u64), |o: &(String, u64)| (o.1 as u32, o.0.parse().unwrap())),
            };
            let want_log: Vec<(usize, u32, u32)> = (0..n).map(|i| (i, av[i], 0)).collect();
            check_log(&what, &log, &want_log)?;
            let narrow = matches!(sel % 7, 3 | 4);
            for (i, (c, v)) in got.iter().enumerate() {
                let wc = if sel % 7 == 3 { (i as u32 + 1) & 0xff } else if sel % 7 == 4 { ((i as u32 + 1) ^ (av[i] << 8)) & 0xff } else { i as u32 + 1 };
                if *c != wc || (!narrow && *v != av[i]) {
                    return Err(format!("{what}: result {i} is (call #{c}, value {v}), expected (call #{wc}, value {})", av[i]));
                }
            }
            if got.len() != n {
                return Err(format!("{what}: result has {} elements", got.len()));
            }
    engine::end_case(false)?;
    acc.count(n >= 2, case);
    acc.class(&format!("kind_{}", T::KIND));
    acc.class("map_into_resized_output");
    Ok(())
}

fn ident<T: 'static>(x: &T) -> Option<u32> {
    (x as &dyn std::any::Any).downcast_ref::<Tracked>().map(|t| t.id_unchecked())
}

macro_rules! lens8 {
    ($n:expr, $N:ident, $body:expr) => {
        len_match!($n, $N, $body, [0: U0, 1: U1, 2: U2, 3: U3, 4: U4, 5: U5, 6: U6, 7: U7, 8: U8, 12: U12, 16: U16, 17: U17, 33: U33, 64: U64, 256: U256, 1024: U1024])
    };
}
const LENS: &[usize] = &[0, 1, 2, 3, 4, 5, 6, 7, 8, 12, 16, 17, 33, 64, 256, 1024];
/// plain u32 elements are cheap to instantiate: more lengths, in particular non-multiples of block sizes
macro_rules! lens_wide {
    ($n:expr, $N:ident, $body:expr) => {
        len_match!($n, $N, $body, [0: U0, 1: U1, 2: U2, 3: U3, 4: U4, 5: U5, 6: U6, 7: U7, 8: U8, 12: U12, 16: U16, 17: U17, 33: U33, 64: U64, 256: U256, 1024: U1024,
            9: U9, 15: U15, 31: U31, 63: U63, 65: U65, 100: U100, 127: U127, 129: U129, 200: U200, 255: U255, 257: U257, 300: U300, 511: U511, 513: U513, 1000: U1000, 1023: U1023, 2048: U2048, 4096: U4096])
    };
}
const WIDE_EXTRA: &[usize] = &[9, 15, 31, 63, 65, 100, 127, 129, 200, 255, 257, 300, 511, 513, 1000, 1023, 2048, 4096];

macro_rules! lens_resize {
    ($n:expr, $N:ident, $body:expr) => {
        len_match!($n, $N, $body, [0: U0, 1: U1, 2: U2, 3: U3, 5: U5, 8: U8, 17: U17, 64: U64, 1024: U1024])
    };
}
const RESIZE_LENS: &[usize] = &[0, 1, 2, 3, 5, 8, 17, 64, 1024];

pub fn exec(case: &Case, acc: &mut Acc) -> Result<(), String> {
    if matches!(case.op, Op::MapResize(..)) {
        return match case.kind {
            Kind::U32 => lens_resize!(case.n, N, exec_resize::<u32, N>(case, acc)),
            _ => lens_resize!(case.n, N, exec_resize::<String, N>(case, acc)),
        };
    }
    if case.denorm > 0 {
        return match case.kind {
            Kind::U32 => harness::denorm_match!(case.denorm, N, exec_typed::<u32, N>(case, acc)),
            Kind::Tracked => harness::denorm_match!(case.denorm, N, exec_typed::<Tracked, N>(case, acc)),
            _ => harness::denorm_match!(case.denorm, N, exec_typed::<Uz, N>(case, acc)),
        };
    }
    match case.kind {
        Kind::U32 => lens_wide!(case.n, N, exec_typed::<u32, N>(case, acc)),
        Kind::Str => lens8!(case.n, N, exec_typed::<String, N>(case, acc)),
        Kind::Tracked => lens8!(case.n, N, exec_typed::<Tracked, N>(case, acc)),
        Kind::Zst => lens8!(case.n, N, exec_typed::<TrackedZst, N>(case, acc)),
        Kind::Gen => lens8!(case.n, N, exec_typed::<Gen, N>(case, acc)),
        Kind::Uz => lens8!(case.n, N, exec_typed::<Uz, N>(case, acc)),
    }
}

fn grid(draws: u32, seed: u64) -> Vec<Case> {
    let mut out = vec![];
    let mut x = seed.wrapping_mul(0x9E37_79B9_7F4A_7C15) | 1;
    let all: Vec<(usize, bool)> = LENS.iter().map(|n| (*n, false)).chain(WIDE_EXTRA.iter().map(|n| (*n, true))).collect();
    for &(n, wide_only) in &all {
        for kind in [Kind::U32, Kind::Str, Kind::Tracked, Kind::Zst, Kind::Gen, Kind::Uz] {
            if wide_only && kind != Kind::U32 {
                continue;
            }
            let mut ops = vec![];
            for f in 0..4 {
                ops.push(Op::Generate(f));
                ops.push(Op::Map(f));
                ops.push(Op::Fold(f));
            }
            for f in 0..10 {
                ops.push(Op::Zip(f));
            }
            if !wide_only {
                for f in 0..4 {
                    ops.push(Op::MapToUnit(f));
                }
                for f in 0..10 {
                    ops.push(Op::ZipToUnit(f));
                }
                if matches!(kind, Kind::U32 | Kind::Str) && RESIZE_LENS.contains(&n) {
                    for f in 0..4 {
                        for sel in 0..7 {
                            ops.push(Op::MapResize(f, sel));
                        }
                    }
                }
            }
            for f in 0..2 {
                ops.push(Op::Clone(f));
                ops.push(Op::Clone(f + 2));
                ops.push(Op::Default(f));
            }
            for op in ops {
                for _ in 0..draws {
                    x ^= x << 13;
                    x ^= x >> 7;
                    x ^= x << 17;
                    out.push(Case { n, kind, op, salt: (x >> 20) as u32 & 0xffff, denorm: 0 });
                }
            }
        }
    }
    // the same operations on lengths spelled with leading zero digits (their value is what `n` says; the type is another one)
    for &(k, n) in harness::lens::DENORM {
        for kind in [Kind::U32, Kind::Tracked, Kind::Uz] {
            let mut ops = vec![];
            for f in 0..4 {
                ops.push(Op::Generate(f));
                ops.push(Op::Map(f));
                ops.push(Op::Fold(f));
                ops.push(Op::MapToUnit(f));
            }
            for f in 0..10 {
                ops.push(Op::Zip(f));
            }
            for f in 0..2 {
                ops.push(Op::Clone(f));
                ops.push(Op::Clone(f + 2));
                ops.push(Op::Default(f));
            }
            for op in ops {
                for _ in 0..draws.min(4) {
                    x ^= x << 13;
                    x ^= x >> 7;
                    x ^= x << 17;
                    out.push(Case { n, kind, op, salt: (x >> 20) as u32 & 0xffff, denorm: k });
                }
            }
        }
    }
    out
}

pub fn main() {
    let args = Args::parse();
    engine::install_hook();
    engine::maybe_replay_many::<Case>(PROP, &args, exec);
    let started = std::time::Instant::now();
    if let Some(p) = &args.replay {
        let case: Case = engine::load_replay(p);
        let mut acc = Acc::new();
        let r = engine::catch(|| exec(&case, &mut acc)).unwrap_or_else(|c| Err(format!("panic: {}", c.msg)));
        engine::finish_replay(PROP, p, r);
    }
    let g = grid(args.scale(20, 5) as u32, args.seed);
    let acc = engine::parallel(&args, PROP, |w, workers, acc| {
        for (i, c) in g.iter().enumerate() {
            if i % workers == w {
                acc.run(c, exec);
            }
        }
    });
    engine::finish(
        &args,
        started,
        acc,
        Report {
            prop: PROP,
            level: "exploration",
            rule: "case = (operation and receiver/argument form, N in {0..8,12,16,17,33,64,256,1024} (u32 elements additionally 9,15,31,63,65,100,127,129,200,255,257,300,511,513,1000,1023,2048,4096), element kind, seeded element values): generate x4 forms (owned, via &, via &mut, boxed), map x4, zip x10 (nine stack forms + boxed x boxed), fold x4, Clone (stack, boxed), clone_from into an existing array (stack, boxed), Default (stack, default_boxed); element kinds u32, String, drop-tracked, zero-sized tracked, a type without drop glue whose Clone/Default are observable, and a zero-sized type without drop glue whose Clone/Default are observable; map x4 and zip x10 whose output element type is () for every input kind; map x4 into seven output types of other sizes / alignments (narrower, wider, same alignment or not, with and without drop glue) for u32 and String inputs; all of generate / map / zip / fold / Clone / Default again on seven lengths spelled by hand with leading zero digits (0, 00, 01, 010, 0011, 0101, 01000 - legal ArrayLength types no typenum alias produces) for u32, drop-tracked and zero-sized elements. \
                   Oracle: the stateful, non-commutative closure's call log must be exactly calls 0..N-1 with arguments (i) / (a[i]) / (a[i], b[i]) / (acc, a[i]) in ascending order, and the result must equal the same computation on slices; Clone/Default order is observed through identities and call logs. \
                   non-trivial = N >= 2; distinct = distinct (form, N, kind, values)",
            exhaustive: false,
            assumptions: vec!["only the listed lengths are instantiated".into()],
            extra: serde_json::json!({}),
        },
    );
}
