//! C14 - hex formatting prints exactly the bytes' digits, truncated to the precision.
//! Built twice by the driver: default features and `faster-hex`; both must equal the per-byte reference.

use core::ops::Add;
use generic_array::typenum::operator_aliases::{Add1, Prod, Sum};
use generic_array::typenum::*;
use generic_array::{ArrayLength, GenericArray};
use harness::engine::{self, Acc, Args, Report};
use proptest::prelude::*;
use serde::{Deserialize, Serialize};
use std::fmt::Write;

pub const PROP: &str = "C14";

#[derive(Clone, Copy, Debug, Serialize, Deserialize, PartialEq, Eq, Hash)]
pub enum Pattern {
    Random(u64),
    /// byte i = (i + k) mod 256: covers all 256 values
    Ramp(u8),
    /// every 1024-byte chunk filled with a different byte, so chunk order and buffer reuse matter
    PerChunk(u8),
    /// high nibble and low nibble always differ: nibble order matters
    Nibbles(u8),
}

#[derive(Clone, Debug, Serialize, Deserialize, PartialEq, Eq, Hash)]
pub struct Case {
    pub n: usize,
    pub pattern: Pattern,
    pub precision: Option<usize>,
    pub upper: bool,
}

fn bytes_for(n: usize, p: Pattern) -> Vec<u8> {
    match p {
        Pattern::Random(seed) => {
            let mut x = seed | 1;
            (0..n)
                .map(|_| {
                    x ^= x << 13;
                    x ^= x >> 7;
                    x ^= x << 17;
                    (x >> 32) as u8
                })
                .collect()
        }
        Pattern::Ramp(k) => (0..n).map(|i| (i as u8).wrapping_add(k)).collect(),
        Pattern::PerChunk(k) => (0..n).map(|i| ((i / 1024) as u8).wrapping_mul(0x3b).wrapping_add(k) | 0x10).collect(),
        Pattern::Nibbles(k) => (0..n).map(|i| { let h = (i as u8).wrapping_add(k) & 0xf; (h << 4) | (h ^ 0xf) }).collect(),
    }
}

fn run<N>(case: &Case) -> Result<(), String>
where
    N: ArrayLength + Add<N>,
    Sum<N, N>: ArrayLength,
{
    let n = N::USIZE;
    let data = bytes_for(n, case.pattern);
    let arr: GenericArray<u8, N> = GenericArray::from_iter(data.iter().copied());
    let mut reference = String::with_capacity(2 * n);
    for b in &data {
        if case.upper {
            write!(reference, "{:02X}", b).unwrap();
        } else {
            write!(reference, "{:02x}", b).unwrap();
        }
    }
    let want = match case.precision {
        Some(p) => &reference[..p.min(2 * n)],
        None => &reference[..],
    };
    let got = match (case.precision, case.upper) {
        (Some(p), false) => format!("{:.*x}", p, arr),
        (Some(p), true) => format!("{:.*X}", p, arr),
        (None, false) => format!("{:x}", arr),
        (None, true) => format!("{:X}", arr),
    };
    if got != want {
        let pos = got.bytes().zip(want.bytes()).position(|(a, b)| a != b).unwrap_or(got.len().min(want.len()));
        return Err(format!(
            "N = {n}, precision {:?}, {}: output has {} characters, expected {}; first difference at character {pos}: got {:?}, expected {:?}",
            case.precision,
            if case.upper { "{:X}" } else { "{:x}" },
            got.len(),
            want.len(),
            got.get(pos..(pos + 6).min(got.len())),
            want.get(pos..(pos + 6).min(want.len()))
        ));
    }
    // the same array stored at an address that is 1 modulo 8 (a field behind a tag byte): the output cannot depend on where the bytes live
    {
        #[repr(C, align(8))]
        struct Off<M: ArrayLength> {
            tag: u8,
            arr: GenericArray<u8, M>,
        }
        let off: Off<N> = Off { tag: 0xEE, arr: arr.clone() };
        let got2 = match (case.precision, case.upper) {
            (Some(p), false) => format!("{:.*x}", p, off.arr),
            (Some(p), true) => format!("{:.*X}", p, off.arr),
            (None, false) => format!("{:x}", off.arr),
            (None, true) => format!("{:X}", off.arr),
        };
        if got2 != want || off.tag != 0xEE {
            return Err(format!("N = {n}, precision {:?}: an array stored at an address that is 1 modulo 8 prints {} characters ({:?}...), expected {} ({:?}...)", case.precision, got2.len(), &got2[..got2.len().min(12)], want.len(), &want[..want.len().min(12)]));
        }
    }
    // a sink that refuses what does not fit (and would accept something shorter later): whatever reached it is a prefix of the digits
    if !want.is_empty() {
        struct Cap {
            buf: String,
            cap: usize,
        }
        impl std::fmt::Write for Cap {
            fn write_str(&mut self, s: &str) -> std::fmt::Result {
                if self.buf.len() + s.len() > self.cap {
                    return Err(std::fmt::Error);
                }
                self.buf.push_str(s);
                Ok(())
            }
        }
        for cap in [want.len() / 3, 100usize.min(want.len().saturating_sub(1)), want.len() * 2 / 3 + 1] {
            let mut sink = Cap { buf: String::new(), cap };
            let r = match (case.precision, case.upper) {
                (Some(p), false) => write!(sink, "{:.*x}", p, arr),
                (Some(p), true) => write!(sink, "{:.*X}", p, arr),
                (None, false) => write!(sink, "{:x}", arr),
                (None, true) => write!(sink, "{:X}", arr),
            };
            if !want.starts_with(&sink.buf) || (r.is_ok() && sink.buf != want) {
                return Err(format!("N = {n}, precision {:?}: a sink of capacity {cap} that refuses what does not fit ended up holding {} characters that are not a prefix of the digits (result {:?})", case.precision, sink.buf.len(), r.is_ok()));
            }
        }
    }
    // "...and nothing else": the `#`, `+`, `-` and `0` flags add nothing either (integers print "0x" for `#`; a byte array has
    // neither a radix prefix nor a sign)
    let flagged = match (case.precision, case.upper) {
        (Some(p), false) => [format!("{:#.p$x}", arr, p = p), format!("{:+.p$x}", arr, p = p), format!("{:-.p$x}", arr, p = p), format!("{:#03.p$x}", arr, p = p)],
        (Some(p), true) => [format!("{:#.p$X}", arr, p = p), format!("{:+.p$X}", arr, p = p), format!("{:-.p$X}", arr, p = p), format!("{:#03.p$X}", arr, p = p)],
        (None, false) => [format!("{:#x}", arr), format!("{:+x}", arr), format!("{:-x}", arr), format!("{:#03x}", arr)],
        (None, true) => [format!("{:#X}", arr), format!("{:+X}", arr), format!("{:-X}", arr), format!("{:#03X}", arr)],
    };
    for (i, got) in flagged.iter().enumerate() {
        if got != want {
            return Err(format!(
                "N = {n}, precision {:?}: with flag variant {i} (# / + / - / #03) the output is {:?}..., the digits alone are {:?}...",
                case.precision,
                &got[..got.len().min(24)],
                &want[..want.len().min(24)]
            ));
        }
    }
    // "...and nothing else": a width, fill or alignment in the format spec adds nothing (all three internal strategies agree)
    let w = want.len() + 3;
    if w > 65535 {
        // core::fmt accepts widths up to 65535 only
        return Ok(());
    }
    let padded = match (case.precision, case.upper) {
        (Some(p), false) => [format!("{:w$.p$x}", arr, w = w, p = p), format!("{:*>w$.p$x}", arr, w = w, p = p), format!("{:_^w$.p$x}", arr, w = w, p = p)],
        (Some(p), true) => [format!("{:w$.p$X}", arr, w = w, p = p), format!("{:*>w$.p$X}", arr, w = w, p = p), format!("{:_^w$.p$X}", arr, w = w, p = p)],
        (None, false) => [format!("{:w$x}", arr, w = w), format!("{:*>w$x}", arr, w = w), format!("{:_^w$x}", arr, w = w)],
        (None, true) => [format!("{:w$X}", arr, w = w), format!("{:*>w$X}", arr, w = w), format!("{:_^w$X}", arr, w = w)],
    };
    for (i, got) in padded.iter().enumerate() {
        if got != want {
            return Err(format!(
                "N = {n}, precision {:?}: with a width of {w} (spec variant {i}: plain / fill+right / fill+centre) the output is {:?}..., the digits alone are {:?}...",
                case.precision,
                &got[..got.len().min(24)],
                &want[..want.len().min(24)]
            ));
        }
    }
    Ok(())
}

const LENS: &[usize] = &[0, 1, 2, 3, 4, 5, 6, 7, 8, 9, 10, 11, 12, 13, 14, 15, 16, 17, 18, 23, 24, 31, 32, 33, 34, 48, 63, 64, 65, 100, 127, 128, 129, 200, 255, 256, 257, 300, 400, 511, 512, 513, 600, 768, 1000, 1023, 1024, 1025, 1500, 2000, 2047, 2048, 2049, 2500, 3000, 4095, 4096, 4097, 5000, 6000, 8191, 8192, 8193, 10000, 16384, 65536];

pub fn exec(case: &Case, acc: &mut Acc) -> Result<(), String> {
    macro_rules! go {
        ($($num:literal => $ty:ty),*) => {
            match case.n {
                $( $num => run::<$ty>(case), )*
                other => panic!("length {} not in the hex lattice", other),
            }
        };
    }
    go!(0 => U0, 1 => U1, 2 => U2, 3 => U3, 4 => U4, 5 => U5, 6 => U6, 7 => U7, 8 => U8, 9 => U9, 10 => U10, 11 => U11, 12 => U12, 13 => U13,
        14 => U14, 15 => U15, 16 => U16, 17 => U17, 18 => U18, 23 => U23, 24 => U24, 31 => U31, 32 => U32, 33 => U33, 34 => U34, 48 => U48, 63 => U63, 64 => U64, 65 => U65,
        100 => U100, 127 => U127, 128 => U128, 129 => U129, 200 => U200, 255 => U255, 256 => U256, 257 => U257, 300 => U300, 400 => U400, 511 => U511, 512 => U512,
        513 => U513, 600 => U600, 768 => U768, 1000 => U1000, 1023 => U1023, 1024 => U1024, 1025 => Add1<U1024>, 1500 => Sum<U1000, U500>, 2000 => Prod<U1000, U2>,
        2047 => U2047, 2048 => U2048, 2049 => Add1<U2048>, 2500 => Prod<U500, U5>, 3000 => Prod<U1000, U3>, 4095 => U4095, 4096 => U4096, 4097 => Add1<U4096>,
        5000 => Prod<U1000, U5>, 6000 => Prod<U1000, U6>, 8191 => U8191, 8192 => U8192, 8193 => Add1<U8192>, 10000 => U10000, 16384 => U16384, 65536 => U65536)?;
    let n = case.n;
    let nonzero = n > 0;
    let odd = case.precision.map(|p| p % 2 == 1 && p < 2 * n).unwrap_or(false);
    let across = case.precision.map(|p| n > 256 && p > 512 && p < 2 * n).unwrap_or(false);
    let threshold = matches!(n, 15 | 16 | 17 | 255 | 256 | 257 | 511 | 512 | 513 | 1023 | 1024 | 1025 | 4095 | 4096 | 4097);
    acc.count(nonzero && (odd || across || threshold), case);
    if odd {
        acc.class("odd_precision_below_2N");
    }
    if across {
        acc.class("precision_across_chunk_boundary");
    }
    if let Some(p) = case.precision {
        if p % 4 == 3 && p < 2 * n {
            acc.class("precision_3_mod_4");
        }
    }
    acc.class(if n < 16 { "strategy_small" } else if n <= 1024 { "strategy_stack_buffer" } else { "strategy_chunked" });
    Ok(())
}

fn grid() -> Vec<Case> {
    let mut out = vec![];
    for &n in LENS {
        let precisions: Vec<Option<usize>> = if n <= 33 {
            std::iter::once(None).chain((0..=2 * n + 2).map(Some)).collect()
        } else {
            let mut v = vec![None];
            for p in [0, 1, 2, 3, 7, 2 * n - 3, 2 * n - 2, 2 * n - 1, 2 * n, 2 * n + 1, 65535] {
                v.push(Some(p));
            }
            // every power-of-two digit boundary an implementation could chunk at, and its neighbours
            let mut b = 32usize;
            while b <= 2 * n && b <= 65536 {
                for p in [b - 1, b, b + 1, b + 3] {
                    if p <= 65535 {
                        v.push(Some(p));
                    }
                }
                b *= 2;
            }
            // odd multiples of 2048 digits (the documented chunk size) up to the end
            let mut k = 3usize;
            while k * 2048 < 2 * n && k < 64 {
                for p in [k * 2048 - 1, k * 2048 + 1] {
                    if p <= 65535 {
                        v.push(Some(p));
                    }
                }
                k += 2;
            }
            v.retain(|p| p.map(|p| p <= 65535).unwrap_or(true));
            v.sort();
            v.dedup();
            v
        };
        for p in precisions {
            for upper in [false, true] {
                for pattern in [Pattern::Ramp(0), Pattern::Ramp(0x9a), Pattern::PerChunk(1), Pattern::Nibbles(3), Pattern::Random(n as u64 * 77 + 5)] {
                    out.push(Case { n, pattern, precision: p, upper });
                }
            }
        }
    }
    out
}

fn random_strategy() -> impl Strategy<Value = Case> {
    (0..LENS.len(), any::<u64>(), any::<u32>(), 0u8..8, any::<bool>()).prop_map(|(li, seed, ps, pm, upper)| {
        let n = LENS[li];
        let precision = match pm {
            0 => None,
            1 => Some(((ps as usize) * (2 * n + 3)) >> 32),
            2 => Some((((ps as usize) * (2 * n + 3)) >> 32) | 1),
            3 => Some((((ps as usize) * (2 * n + 3)) >> 32) | 3),
            4 => Some(2048usize.saturating_add(ps as usize % 7).saturating_sub(3)),
            5 => Some((2 * n).saturating_sub(ps as usize % 5)),
            _ => Some(((ps as usize) * (2 * n + 3)) >> 32),
        };
        Case { n, pattern: Pattern::Random(seed), precision: precision.map(|p| p.min(65535)), upper }
    })
}

pub fn main() {
    let args = Args::parse();
    engine::install_hook();
    engine::maybe_replay_many::<Case>(PROP, &args, exec);
    let started = std::time::Instant::now();
    if let Some(p) = &args.replay {
        let case: Case = engine::load_replay(p);
        let mut acc = Acc::new();
        let r = engine::catch(|| exec(&case, &mut acc)).unwrap_or_else(|c| Err(format!("panic: {}", c.msg)));
        engine::finish_replay(PROP, p, r);
    }
    let g = grid();
    let random_cases = args.scale(100_000, 10) as u32;
    let acc = engine::parallel(&args, PROP, |w, workers, acc| {
        for (i, c) in g.iter().enumerate() {
            if i % workers == w {
                acc.run(c, exec);
            }
        }
        let strat = random_strategy();
        engine::prop_search(acc, args.seed, w as u64, random_cases / workers as u32, &strat, |c, acc| exec(c, acc));
    });
    engine::finish(
        &args,
        started,
        acc,
        Report {
            prop: PROP,
            level: "exploration",
            rule: "case = (N in 66 lengths from 0 to 65536 (0..=18, 23, 24, 31..34, 48, 63..65, 100, 127..129, 200, 255..257, 300, 400, 511..513, 600, 768, 1000, 1023..1025, 1500, 2000, 2047..2049, 2500, 3000, 4095..4097, 5000, 6000, 8191..8193, 10000, 16384, 65536), byte pattern, precision, {:x} or {:X}); grid: every precision 0..=2N+2 (and none) for N <= 33, boundary precisions beyond (0..3, 7, every power-of-two digit count from 32 with its neighbours, odd multiples of 2048, 2N-3..2N+1, and 65535 - the largest precision core::fmt accepts), with ramp (all 256 byte values), per-chunk-distinct, nibble-asymmetric and seeded random data; plus proptest-random (data, precision) cases. The check is built and run twice: default features and faster-hex. \
                   Every case is also formatted from storage at an address that is 1 modulo 8, into a fixed-capacity sink that refuses what does not fit (what reached it must be a prefix of the digits), and with a width (plain, fill + right-aligned, fill + centred) three characters wider than the output: the digits and nothing else must come out; the same with the #, +, - and #0 flags. Oracle: reference string built per byte with {:02x} / {:02X}, cut to min(p, 2N) characters. \
                   non-trivial = N > 0 and (odd precision below 2N, or precision across a 2048-digit chunk boundary, or N at a strategy threshold 15/16/17/1023/1024/1025); distinct = distinct case tuples",
            exhaustive: false,
            assumptions: vec!["faster-hex selects its SIMD path by run-time CPU detection; the paths this CPU does not take are not exercised".into()],
            extra: serde_json::json!({"grid_cases": g.len()}),
        },
    );
}
