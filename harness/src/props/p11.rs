//! C11 - flatten and unflatten regroup elements in row-major order over the same storage.

#[path = "tables.rs"]
#[allow(dead_code)]
mod tables;

use core::ops::{Div, Mul};
use generic_array::sequence::*;
use generic_array::typenum::operator_aliases::{Prod, Quot};
use generic_array::{ArrayLength, GenericArray};
use harness::engine::{self, Acc, Args, Report};
use harness::registry::{self, Elem, Tracked, TrackedZst};
use serde::{Deserialize, Serialize};
use tables::{nm_pairs, nm_pairs_n0, NM_PAIRS};

pub const PROP: &str = "C11";

#[derive(Clone, Copy, Debug, Serialize, Deserialize, PartialEq, Eq, Hash)]
pub enum Kind {
    U8,
    U64,
    Unit,
    Tracked,
    Zst,
    Big72,
    Al32,
    TrackedBig,
    /// zero-sized `()` elements with N*M up to 2^63 (more elements than isize::MAX): by-reference forms only, the arrays
    /// occupy no memory and are only ever handled through references
    HugeUnit,
}

#[derive(Clone, Debug, Serialize, Deserialize, PartialEq, Eq, Hash)]
pub struct Case {
    pub kind: Kind,
    /// inner length
    pub n: usize,
    /// outer length
    pub m: usize,
    /// 0 owned, 1 shared reference, 2 mutable reference
    pub form: u8,
    pub salt: u32,
}

type Item = (u32, Option<u32>);

fn item<T: Elem>(x: &T) -> Item {
    (x.get(), x.ident())
}

fn build<T: Elem, N: ArrayLength, M: ArrayLength>(salt: u32) -> (GenericArray<GenericArray<T, N>, M>, Vec<Item>) {
    let n = N::USIZE;
    let nested: GenericArray<GenericArray<T, N>, M> = GenericArray::generate(|i| GenericArray::generate(|j| T::mk(salt.wrapping_add((i * n + j) as u32 * 5))));
    let want: Vec<Item> = nested.iter().flat_map(|inner| inner.iter()).map(item).collect();
    (nested, want)
}

fn cmp(what: &str, got: Vec<Item>, want: &[Item]) -> Result<(), String> {
    if got != want {
        let pos = got.iter().zip(want).position(|(g, w)| g != w).unwrap_or(got.len().min(want.len()));
        return Err(format!("{what}: element {pos} is {:?}, row-major order requires {:?} (lengths {} vs {})", got.get(pos), want.get(pos), got.len(), want.len()));
    }
    Ok(())
}

fn flatten_case<T: Elem, N, M>(form: u8, salt: u32) -> Result<(), String>
where
    N: ArrayLength + Mul<M>,
    M: ArrayLength,
    Prod<N, M>: ArrayLength,
{
    let (n, m) = (N::USIZE, M::USIZE);
    let (mut nested, want) = build::<T, N, M>(salt);
    let base = &nested as *const _ as usize;
    let bytes = core::mem::size_of_val(&nested);
    match form {
        0 => {
            let flat = nested.flatten();
            if flat.len() != n * m {
                return Err(format!("flatten length {} expected {}", flat.len(), n * m));
            }
            cmp("owned flatten", flat.iter().map(item).collect(), &want)?;
        }
        1 => {
            let flat = (&nested).flatten();
            if flat as *const _ as usize != base {
                return Err("&flatten: the view does not start at the original array's address".into());
            }
            if core::mem::size_of_val(flat) != bytes || flat.len() != n * m {
                return Err(format!("&flatten: view covers {} bytes / {} elements, the source {} bytes / {}", core::mem::size_of_val(flat), flat.len(), bytes, n * m));
            }
            cmp("&flatten", flat.iter().map(item).collect(), &want)?;
        }
        _ => {
            let mut want2 = want.clone();
            {
                let flat = (&mut nested).flatten();
                if flat as *const _ as usize != base {
                    return Err("&mut flatten: the view does not start at the original array's address".into());
                }
                if core::mem::size_of_val(flat) != bytes || flat.len() != n * m {
                    return Err(format!("&mut flatten: view covers {} bytes, the source {}", core::mem::size_of_val(flat), bytes));
                }
                // write through the view at a few positions
                for idx in [0usize, n * m / 2, (n * m).saturating_sub(1)] {
                    if idx < n * m {
                        let x = T::mk(salt ^ (0xABC0 + idx as u32));
                        want2[idx] = item(&x);
                        flat[idx] = x;
                    }
                }
            }
            // read back through the nested original: flat index i*N + j <-> nested[i][j]
            let mut got = vec![];
            for i in 0..m {
                for j in 0..n {
                    got.push(item(&nested[i][j]));
                }
            }
            cmp("&mut flatten write-through", got, &want2)?;
        }
    }
    Ok(())
}

fn unflatten_case<T: Elem, N, M>(form: u8, salt: u32) -> Result<(), String>
where
    N: ArrayLength + Mul<M>,
    M: ArrayLength,
    Prod<N, M>: ArrayLength + Div<N>,
    Quot<Prod<N, M>, N>: ArrayLength,
    N: Mul<Quot<Prod<N, M>, N>>,
    Prod<N, Quot<Prod<N, M>, N>>: ArrayLength,
{
    let (n, m) = (N::USIZE, M::USIZE);
    let (nested, want) = build::<T, N, M>(salt);
    let mut flat: GenericArray<T, Prod<N, M>> = nested.flatten();
    let base = &flat as *const _ as usize;
    let bytes = core::mem::size_of_val(&flat);
    let rows = |x: &GenericArray<GenericArray<T, N>, Quot<Prod<N, M>, N>>| -> Vec<Item> { x.iter().flat_map(|inner| inner.iter()).map(item).collect() };
    match form {
        0 => {
            let back: GenericArray<GenericArray<T, N>, Quot<Prod<N, M>, N>> = flat.unflatten();
            if back.len() != m {
                return Err(format!("unflatten gives {} inner arrays, expected {m}", back.len()));
            }
            cmp("owned unflatten(flatten(x))", rows(&back), &want)?;
            // and the converse
            let again = back.flatten();
            cmp("flatten(unflatten(y))", again.iter().map(item).collect(), &want)?;
        }
        1 => {
            let view: &GenericArray<GenericArray<T, N>, Quot<Prod<N, M>, N>> = (&flat).unflatten();
            if view as *const _ as usize != base {
                return Err("&unflatten: the view does not start at the original array's address".into());
            }
            if core::mem::size_of_val(view) != bytes || view.len() != m {
                return Err(format!("&unflatten: view covers {} bytes / {} rows, the source {} bytes / {m} rows", core::mem::size_of_val(view), view.len(), bytes));
            }
            cmp("&unflatten", rows(view), &want)?;
        }
        _ => {
            let mut want2 = want.clone();
            {
                let view: &mut GenericArray<GenericArray<T, N>, Quot<Prod<N, M>, N>> = (&mut flat).unflatten();
                if view as *const _ as usize != base {
                    return Err("&mut unflatten: the view does not start at the original array's address".into());
                }
                if core::mem::size_of_val(view) != bytes || view.len() != m {
                    return Err(format!("&mut unflatten: view covers {} bytes, the source {}", core::mem::size_of_val(view), bytes));
                }
                for (i, j) in [(0usize, 0usize), (m / 2, n / 2), (m.saturating_sub(1), n.saturating_sub(1))] {
                    if i < m && j < n {
                        let x = T::mk(salt ^ (0xDEF0 + (i * n + j) as u32));
                        want2[i * n + j] = item(&x);
                        view[i][j] = x;
                    }
                }
            }
            cmp("&mut unflatten write-through", flat.iter().map(item).collect(), &want2)?;
        }
    }
    Ok(())
}

/// By-reference regrouping of zero-sized arrays whose element count does not fit in isize. Nothing is ever read or written:
/// only addresses, lengths and extents are compared.
fn huge_unit_case<N, M>(form: u8) -> Result<(), String>
where
    N: ArrayLength + Mul<M>,
    M: ArrayLength,
    Prod<N, M>: ArrayLength + Div<N>,
    Quot<Prod<N, M>, N>: ArrayLength,
{
    let (n, m) = (N::USIZE, M::USIZE);
    let total = (n as u128) * (m as u128);
    if total > usize::MAX as u128 || core::mem::size_of::<GenericArray<(), N>>() != 0 {
        return Err("harness: not a zero-sized pair that fits usize".into());
    }
    let total = total as usize;
    let mut backing = [0u64; 2];
    let base = backing.as_mut_ptr() as usize;
    // M zero-sized rows, all at `base`: a slice of zero-sized elements may have any length
    let rows: &mut [GenericArray<(), N>] = unsafe { core::slice::from_raw_parts_mut(base as *mut GenericArray<(), N>, m) };
    if form == 1 {
        let nested: &GenericArray<GenericArray<(), N>, M> = GenericArray::from_slice(rows);
        let flat: &GenericArray<(), Prod<N, M>> = nested.flatten();
        if flat as *const _ as usize != base || flat.len() != total || flat.as_slice().len() != total || core::mem::size_of_val(flat) != 0 {
            return Err(format!("&flatten of {m} rows of {n} zero-sized elements: address {:#x} (source {:#x}), {} elements, expected {total}", flat as *const _ as usize, base, flat.len()));
        }
        let back: &GenericArray<GenericArray<(), N>, Quot<Prod<N, M>, N>> = flat.unflatten();
        if back as *const _ as usize != base || back.len() != m {
            return Err(format!("&unflatten of {total} zero-sized elements into rows of {n}: {} rows, expected {m}", back.len()));
        }
    } else {
        let nested: &mut GenericArray<GenericArray<(), N>, M> = GenericArray::from_mut_slice(rows);
        let flat: &mut GenericArray<(), Prod<N, M>> = nested.flatten();
        if flat as *const _ as usize != base || flat.len() != total || flat.as_mut_slice().len() != total {
            return Err(format!("&mut flatten of {m} rows of {n} zero-sized elements: {} elements, expected {total}", flat.len()));
        }
        let back: &mut GenericArray<GenericArray<(), N>, Quot<Prod<N, M>, N>> = flat.unflatten();
        if back as *const _ as usize != base || back.len() != m {
            return Err(format!("&mut unflatten of {total} zero-sized elements into rows of {n}: {} rows, expected {m}", back.len()));
        }
    }
    Ok(())
}

/// (inner, outer) lengths of the huge zero-sized cases
pub const HUGE_PAIRS: &[(usize, usize)] = &[(1 << 32, 1 << 31), (1 << 63, 1), (1, 1 << 63), (1 << 31, 1 << 31), (1 << 33, 1 << 30), (1 << 62, 2), (3, 1 << 61), (1 << 40, 1 << 20), (1 << 16, 1 << 16)];

fn exec_huge(case: &Case, acc: &mut Acc) -> Result<(), String> {
    use generic_array::typenum::*;
    let f = case.form.clamp(1, 2);
    match (case.n, case.m) {
        (4294967296, 2147483648) => huge_unit_case::<U4294967296, U2147483648>(f),
        (9223372036854775808, 1) => huge_unit_case::<U9223372036854775808, U1>(f),
        (1, 9223372036854775808) => huge_unit_case::<U1, U9223372036854775808>(f),
        (2147483648, 2147483648) => huge_unit_case::<U2147483648, U2147483648>(f),
        (8589934592, 1073741824) => huge_unit_case::<U8589934592, U1073741824>(f),
        (4611686018427387904, 2) => huge_unit_case::<U4611686018427387904, U2>(f),
        (3, 2305843009213693952) => huge_unit_case::<U3, U2305843009213693952>(f),
        (1099511627776, 1048576) => huge_unit_case::<U1099511627776, U1048576>(f),
        (65536, 65536) => huge_unit_case::<U65536, U65536>(f),
        _ => return Ok(()),
    }?;
    acc.count(true, case);
    acc.class("huge_zero_sized_by_reference");
    Ok(())
}

fn exec_typed<T: Elem>(case: &Case, acc: &mut Acc) -> Result<(), String> {
    registry::reset();
    let (n, m, form, salt) = (case.n, case.m, case.form, case.salt);
    if n == 0 {
        nm_pairs_n0!(n, m, N, M => flatten_case::<T, N, M>(form, salt))?;
    } else {
        nm_pairs!(n, m, N, M => flatten_case::<T, N, M>(form, salt))?;
        registry::reset();
        nm_pairs!(n, m, N, M => unflatten_case::<T, N, M>(form, salt))?;
    }
    engine::end_case(false)?;
    acc.count(n * m >= 2 && (n >= 2 || m >= 2), case);
    acc.class(match form {
        0 => "owned",
        1 => "shared_ref",
        _ => "mut_ref",
    });
    if n * m == 0 {
        acc.class("zero_total_length");
    }
    Ok(())
}

pub fn exec(case: &Case, acc: &mut Acc) -> Result<(), String> {
    match case.kind {
        Kind::U8 => exec_typed::<u8>(case, acc),
        Kind::U64 => exec_typed::<u64>(case, acc),
        Kind::Unit => exec_typed::<()>(case, acc),
        Kind::Tracked => exec_typed::<Tracked>(case, acc),
        Kind::Zst => exec_typed::<TrackedZst>(case, acc),
        Kind::Big72 => exec_typed::<harness::registry::Big72>(case, acc),
        Kind::Al32 => exec_typed::<harness::registry::Al32>(case, acc),
        Kind::TrackedBig => exec_typed::<harness::registry::TrackedBig>(case, acc),
        Kind::HugeUnit => exec_huge(case, acc),
    }
}

pub fn main() {
    let args = Args::parse();
    engine::install_hook();
    engine::maybe_replay_many::<Case>(PROP, &args, exec);
    let started = std::time::Instant::now();
    if let Some(p) = &args.replay {
        let case: Case = engine::load_replay(p);
        let mut acc = Acc::new();
        let r = engine::catch(|| exec(&case, &mut acc)).unwrap_or_else(|c| Err(format!("panic: {}", c.msg)));
        engine::finish_replay(PROP, p, r);
    }
    let draws = args.scale(30, 5);
    let mut g = vec![];
    let mut x = args.seed.wrapping_mul(0x9E37_79B9_7F4A_7C15) | 1;
    for kind in [Kind::U8, Kind::U64, Kind::Unit, Kind::Tracked, Kind::Zst, Kind::Big72, Kind::Al32, Kind::TrackedBig] {
        for &(n, m) in NM_PAIRS {
            for form in 0..3u8 {
                for _ in 0..(if n * m > 100 { 2 } else { draws }) {
                    x ^= x << 13;
                    x ^= x >> 7;
                    x ^= x << 17;
                    g.push(Case { kind, n, m, form, salt: (x >> 24) as u32 & 0xfffff });
                }
            }
        }
    }
    if args.dump.is_some() {
        // cases dumped for the Miri stage: small totals, every form equally often
        let mut seen = std::collections::HashSet::new();
        g.retain(|c| c.n * c.m <= 16 && c.n <= 6 && c.m <= 6 && matches!(c.kind, Kind::U8 | Kind::U64 | Kind::Tracked | Kind::Al32) && seen.insert((c.kind, c.n, c.m, c.form)));
    }
    for &(n, m) in HUGE_PAIRS {
        for form in 1..3u8 {
            g.push(Case { kind: Kind::HugeUnit, n, m, form, salt: 0 });
        }
    }
    let acc = engine::parallel(&args, PROP, |w, workers, acc| {
        for (i, c) in g.iter().enumerate() {
            if i % workers == w {
                acc.run(c, exec);
            }
        }
    });
    engine::finish(
        &args,
        started,
        acc,
        Report {
            prop: PROP,
            level: "exploration",
            rule: "case = (element kind, inner length N, outer length M, form, seeded values): all (N, M) in 0..=6 x 0..=6 plus (1,1024), (1024,1), (16,64), (64,16), (3,341), (341,3), (32,32), (2,500), (1000,0), (0,1000), (7,9); owned, & and &mut forms of flatten and (N >= 1) of unflatten; kinds u8, u64, (), drop-tracked, zero-sized tracked, 72-byte [u64;9], 32-byte-aligned, 96-byte drop-tracked; plus by-reference flatten/unflatten of zero-sized () arrays with N*M up to 2^63 - (2^32,2^31), (2^63,1), (1,2^63), (2^33,2^30), (2^62,2), (3,2^61) ... - handled through references only (addresses, lengths and extents compared, nothing read). \
                   Oracle: flat[i*N + j] == nested[i][j] by value and identity; unflatten(flatten(x)) == x and the converse; by-reference forms return the source's address and size_of_val; writes through the &mut regrouped view are read back through the original; drop registry balanced. \
                   non-trivial = N*M >= 2 with N >= 2 or M >= 2; distinct = distinct case tuples",
            exhaustive: false,
            assumptions: vec!["unflatten only over evenly divisible lengths (its documented domain)".into()],
            extra: serde_json::json!({"nm_pairs": NM_PAIRS.len()}),
        },
    );
}
