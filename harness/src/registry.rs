//! Identity-carrying, drop-tracked element types and the deterministic fault injectors.
//!
//! Everything is thread-local: one case runs on one thread, cases on different worker threads
//! never see each other's state.

use std::cell::RefCell;
use std::mem::ManuallyDrop;

const MAGIC: u32 = 0x5EED_C0DE;
const PAYLOAD_MAGIC: u64 = 0xA5A5_5A5A_0F0F_F0F0;

#[derive(Clone, Copy, PartialEq, Eq, Debug)]
enum St {
    Live,
    Dropped,
}

/// Panic payload used for every injected fault; anything else that unwinds is a real panic.
pub struct Injected(pub &'static str);

#[derive(Default)]
pub struct Reg {
    states: Vec<St>,
    pub violations: Vec<String>,
    pub zst_created: u64,
    pub zst_dropped: u64,
    /// id whose destructor panics (once)
    drop_panic_id: Option<u32>,
    pub drop_panic_fired: bool,
    /// callback invocations seen so far (closures, clone, default, scripted next)
    pub calls: u64,
    panic_at_call: Option<u64>,
    pub call_panic_fired: bool,
    /// ids in the order they were dropped
    pub drop_log: Vec<u32>,
    /// zst: index of the drop (0-based count) that panics once
    zst_drop_panic_at: Option<u64>,
}

thread_local! {
    static REG: RefCell<Reg> = RefCell::new(Reg::default());
}

fn with<R>(f: impl FnOnce(&mut Reg) -> R) -> R {
    REG.with(|r| f(&mut r.borrow_mut()))
}

/// Start a new case: forget everything.
pub fn reset() {
    with(|r| {
        // keep (and pre-reserve) the buffers so that a case running inside a recorded allocator window
        // does not see the registry's own allocations
        let mut states = std::mem::take(&mut r.states);
        let mut drop_log = std::mem::take(&mut r.drop_log);
        let mut violations = std::mem::take(&mut r.violations);
        states.clear();
        drop_log.clear();
        violations.clear();
        states.reserve(16384);
        drop_log.reserve(16384);
        violations.reserve(40);
        *r = Reg { states, drop_log, violations, ..Reg::default() };
    });
}

pub fn violation(msg: String) {
    with(|r| {
        if r.violations.len() < 32 {
            r.violations.push(msg)
        }
    });
}

pub fn violations() -> Vec<String> {
    with(|r| r.violations.clone())
}

pub fn created() -> usize {
    with(|r| r.states.len())
}

pub fn live() -> usize {
    with(|r| r.states.iter().filter(|s| **s == St::Live).count())
}

pub fn dropped() -> usize {
    with(|r| r.states.iter().filter(|s| **s == St::Dropped).count())
}

pub fn is_live(id: u32) -> bool {
    with(|r| r.states.get(id as usize) == Some(&St::Live))
}

pub fn drop_log() -> Vec<u32> {
    with(|r| r.drop_log.clone())
}

pub fn calls() -> u64 {
    with(|r| r.calls)
}

pub fn zst_counts() -> (u64, u64) {
    with(|r| (r.zst_created, r.zst_dropped))
}

/// Arrange for the k-th (0-based) callback invocation from now on to panic.
pub fn panic_at_call(k: u64) {
    with(|r| {
        r.panic_at_call = Some(r.calls + k);
        r.call_panic_fired = false;
    });
}

pub fn clear_call_panic() {
    with(|r| r.panic_at_call = None);
}

pub fn call_panic_fired() -> bool {
    with(|r| r.call_panic_fired)
}

/// Arrange for the destructor of element `id` to panic (once).
pub fn panic_in_drop_of(id: u32) {
    with(|r| {
        r.drop_panic_id = Some(id);
        r.drop_panic_fired = false;
    });
}

pub fn panic_in_zst_drop(k: u64) {
    with(|r| {
        r.zst_drop_panic_at = Some(r.zst_dropped + k);
        r.drop_panic_fired = false;
    });
}

pub fn clear_drop_panic() {
    with(|r| {
        r.drop_panic_id = None;
        r.zst_drop_panic_at = None;
    });
}

pub fn drop_panic_fired() -> bool {
    with(|r| r.drop_panic_fired)
}

/// Count one callback invocation; panics with `Injected` if this is the armed one.
pub fn tick(what: &'static str) {
    let fire = with(|r| {
        let fire = r.panic_at_call == Some(r.calls);
        r.calls += 1;
        if fire {
            r.panic_at_call = None;
            r.call_panic_fired = true;
        }
        fire
    });
    if fire {
        std::panic::panic_any(Injected(what));
    }
}

/// End of a case, after every value the case owned is gone. Returns all violations, adding one
/// per element that is still live unless leaks are allowed (C05).
pub fn finish(allow_leaks: bool) -> Vec<String> {
    with(|r| {
        let mut v = std::mem::take(&mut r.violations);
        if !allow_leaks {
            let leaked: Vec<usize> = r
                .states
                .iter()
                .enumerate()
                .filter(|(_, s)| **s == St::Live)
                .map(|(i, _)| i)
                .collect();
            if !leaked.is_empty() {
                v.push(format!("leak: elements never dropped ids={:?}", &leaked[..leaked.len().min(8)]));
            }
            if r.zst_created != r.zst_dropped {
                v.push(format!("zst leak: created={} dropped={}", r.zst_created, r.zst_dropped));
            }
        }
        v
    })
}

/// Number of elements still live (leaked if nothing owns them any more)
pub fn leaked() -> usize {
    live()
}

// ---------------------------------------------------------------------------------------------

/// 24-byte element that needs drop, carries an identity and owns a heap payload.
#[repr(C)]
pub struct Tracked {
    id: u32,
    chk: u32,
    val: u32,
    _pad: u32,
    payload: ManuallyDrop<Box<u64>>,
}

impl Tracked {
    pub fn new(val: u32) -> Tracked {
        let id = with(|r| {
            r.states.push(St::Live);
            (r.states.len() - 1) as u32
        });
        Tracked { id, chk: id ^ MAGIC, val, _pad: 0, payload: ManuallyDrop::new(Box::new(id as u64 ^ PAYLOAD_MAGIC)) }
    }

    /// Identity without any liveness check (used by harness bookkeeping only)
    pub fn id_unchecked(&self) -> u32 {
        self.id
    }

    /// An observation: the element must be a live, well-formed value.
    pub fn observe(&self) -> u32 {
        let ok = with(|r| {
            if self.chk != self.id ^ MAGIC || self.id as usize >= r.states.len() {
                if r.violations.len() < 32 {
                    r.violations.push(format!(
                        "garbage value observed (id field {:#x}): uninitialised or out-of-bounds slot treated as an element",
                        self.id
                    ));
                }
                return false;
            }
            if r.states[self.id as usize] != St::Live {
                if r.violations.len() < 32 {
                    r.violations.push(format!("element id={} observed after it was dropped", self.id));
                }
                return false;
            }
            true
        });
        if ok {
            // reads the heap payload: a use-after-free is visible to ASan / Miri here
            let p: u64 = **self.payload;
            if p != self.id as u64 ^ PAYLOAD_MAGIC {
                violation(format!("element id={} has a corrupted heap payload", self.id));
            }
        }
        self.val
    }

    pub fn id(&self) -> u32 {
        self.observe();
        self.id
    }
}

impl Drop for Tracked {
    fn drop(&mut self) {
        enum V {
            Bad,
            First(bool),
        }
        let v = with(|r| {
            if self.chk != self.id ^ MAGIC || self.id as usize >= r.states.len() {
                if r.violations.len() < 32 {
                    r.violations.push(format!(
                        "garbage value dropped (id field {:#x}): uninitialised or out-of-bounds slot treated as an element",
                        self.id
                    ));
                }
                return V::Bad;
            }
            if r.states[self.id as usize] == St::Dropped {
                if r.violations.len() < 32 {
                    r.violations.push(format!("double drop of element id={}", self.id));
                }
                return V::Bad;
            }
            r.states[self.id as usize] = St::Dropped;
            r.drop_log.push(self.id);
            let fire = r.drop_panic_id == Some(self.id) && !r.drop_panic_fired;
            if fire {
                r.drop_panic_fired = true;
                r.drop_panic_id = None;
            }
            V::First(fire)
        });
        match v {
            V::Bad => {}
            V::First(fire) => {
                unsafe { ManuallyDrop::drop(&mut self.payload) };
                if fire {
                    std::panic::panic_any(Injected("drop"));
                }
            }
        }
    }
}

impl Clone for Tracked {
    fn clone(&self) -> Self {
        tick("clone");
        let v = self.observe();
        Tracked::new(v)
    }
}

impl Default for Tracked {
    fn default() -> Self {
        tick("default");
        Tracked::new(0)
    }
}

impl PartialEq for Tracked {
    fn eq(&self, o: &Self) -> bool {
        self.observe() == o.observe()
    }
}

impl std::fmt::Debug for Tracked {
    fn fmt(&self, f: &mut std::fmt::Formatter<'_>) -> std::fmt::Result {
        write!(f, "{}", self.observe())
    }
}

impl serde::Serialize for Tracked {
    fn serialize<S: serde::Serializer>(&self, s: S) -> Result<S::Ok, S::Error> {
        s.serialize_u32(self.observe())
    }
}

impl<'de> serde::Deserialize<'de> for Tracked {
    fn deserialize<D: serde::Deserializer<'de>>(d: D) -> Result<Self, D::Error> {
        let v = u32::deserialize(d)?;
        Ok(Tracked::new(v))
    }
}

// ---------------------------------------------------------------------------------------------

/// Zero-sized drop-tracked element: only counts.
pub struct TrackedZst {
    _priv: (),
}

impl TrackedZst {
    pub fn new() -> TrackedZst {
        with(|r| r.zst_created += 1);
        TrackedZst { _priv: () }
    }
}

impl Drop for TrackedZst {
    fn drop(&mut self) {
        let fire = with(|r| {
            let fire = r.zst_drop_panic_at == Some(r.zst_dropped) && !r.drop_panic_fired;
            r.zst_dropped += 1;
            if r.zst_dropped > r.zst_created && r.violations.len() < 32 {
                r.violations.push(format!(
                    "zero-sized element dropped more often than created: created={} dropped={}",
                    r.zst_created, r.zst_dropped
                ));
            }
            if fire {
                r.drop_panic_fired = true;
                r.zst_drop_panic_at = None;
            }
            fire
        });
        if fire {
            std::panic::panic_any(Injected("zst drop"));
        }
    }
}

impl Clone for TrackedZst {
    fn clone(&self) -> Self {
        tick("clone");
        TrackedZst::new()
    }
}

impl Default for TrackedZst {
    fn default() -> Self {
        tick("default");
        TrackedZst::new()
    }
}

impl serde::Serialize for TrackedZst {
    fn serialize<S: serde::Serializer>(&self, s: S) -> Result<S::Ok, S::Error> {
        s.serialize_u32(0)
    }
}

impl<'de> serde::Deserialize<'de> for TrackedZst {
    fn deserialize<D: serde::Deserializer<'de>>(d: D) -> Result<Self, D::Error> {
        let _ = u32::deserialize(d)?;
        Ok(TrackedZst::new())
    }
}

impl PartialEq for TrackedZst {
    fn eq(&self, _: &Self) -> bool {
        true
    }
}

impl std::fmt::Debug for TrackedZst {
    fn fmt(&self, f: &mut std::fmt::Formatter<'_>) -> std::fmt::Result {
        write!(f, "0")
    }
}

// ---------------------------------------------------------------------------------------------

/// Harness view of an element type: build from / read back a logical u32 value.
pub trait Elem: Sized + 'static {
    const KIND: &'static str;
    const NEEDS_DROP: bool;
    fn mk(v: u32) -> Self;
    /// read the logical value (an observation for tracked kinds)
    fn get(&self) -> u32;
    /// what `mk(v).get()` returns
    fn norm(v: u32) -> u32 {
        v
    }
    fn dup(&self) -> Self {
        Self::mk(self.get())
    }
    /// identity of a drop-tracked element (no liveness check), None for plain kinds
    fn ident(&self) -> Option<u32> {
        None
    }
}

impl Elem for Tracked {
    const KIND: &'static str = "tracked";
    const NEEDS_DROP: bool = true;
    fn mk(v: u32) -> Self {
        Tracked::new(v)
    }
    fn get(&self) -> u32 {
        self.observe()
    }
    fn ident(&self) -> Option<u32> {
        Some(self.id)
    }
}

impl Elem for TrackedZst {
    const KIND: &'static str = "tracked_zst";
    const NEEDS_DROP: bool = true;
    fn mk(_: u32) -> Self {
        TrackedZst::new()
    }
    fn get(&self) -> u32 {
        0
    }
    fn norm(_: u32) -> u32 {
        0
    }
}

impl Elem for u32 {
    const KIND: &'static str = "u32";
    const NEEDS_DROP: bool = false;
    fn mk(v: u32) -> Self {
        v
    }
    fn get(&self) -> u32 {
        *self
    }
}

impl Elem for u8 {
    const KIND: &'static str = "u8";
    const NEEDS_DROP: bool = false;
    fn mk(v: u32) -> Self {
        v as u8
    }
    fn get(&self) -> u32 {
        *self as u32
    }
    fn norm(v: u32) -> u32 {
        v & 0xff
    }
}

impl Elem for u64 {
    const KIND: &'static str = "u64";
    const NEEDS_DROP: bool = false;
    fn mk(v: u32) -> Self {
        (v as u64) << 32 | (!v as u64)
    }
    fn get(&self) -> u32 {
        (*self >> 32) as u32
    }
}

impl Elem for [u64; 3] {
    const KIND: &'static str = "[u64;3]";
    const NEEDS_DROP: bool = false;
    fn mk(v: u32) -> Self {
        [v as u64, !(v as u64), (v as u64).wrapping_mul(0x9E37_79B9_7F4A_7C15)]
    }
    fn get(&self) -> u32 {
        if self[1] != !self[0] || self[2] != self[0].wrapping_mul(0x9E37_79B9_7F4A_7C15) {
            violation(format!("[u64;3] element torn: {:?}", self));
        }
        self[0] as u32
    }
}

impl Elem for () {
    const KIND: &'static str = "()";
    const NEEDS_DROP: bool = false;
    fn mk(_: u32) -> Self {}
    fn get(&self) -> u32 {
        0
    }
    fn norm(_: u32) -> u32 {
        0
    }
}

impl Elem for (u8, u16) {
    const KIND: &'static str = "(u8,u16)";
    const NEEDS_DROP: bool = false;
    fn mk(v: u32) -> Self {
        ((v >> 16) as u8, v as u16)
    }
    fn get(&self) -> u32 {
        (self.0 as u32) << 16 | self.1 as u32
    }
    fn norm(v: u32) -> u32 {
        v & 0x00ff_ffff
    }
}

impl Elem for String {
    const KIND: &'static str = "String";
    const NEEDS_DROP: bool = true;
    fn mk(v: u32) -> Self {
        format!("s{v}")
    }
    fn get(&self) -> u32 {
        self.as_str().get(1..).and_then(|s| s.parse().ok()).unwrap_or(u32::MAX)
    }
}

/// Read the logical value through a value, a shared or a mutable reference alike (closure arguments of
/// the different receiver forms).
pub trait Peek {
    fn peek(&self) -> u32;
}
impl<T: Elem> Peek for &T {
    fn peek(&self) -> u32 {
        (**self).get()
    }
}
impl<T: Elem> Peek for &mut T {
    fn peek(&self) -> u32 {
        (**self).get()
    }
}
macro_rules! peek_owned {
    ($($t:ty),*) => { $( impl Peek for $t { fn peek(&self) -> u32 { self.get() } } )* };
}
peek_owned!(Tracked, TrackedZst, u32, u8, u64, [u64; 3], (), (u8, u16), String);

pub fn pk<X: Peek>(x: &X) -> u32 {
    x.peek()
}

/// zero-sized because of its length, not because of its element type
pub type ZeroLenArr = generic_array::GenericArray<u32, generic_array::typenum::U0>;
impl Elem for ZeroLenArr {
    const KIND: &'static str = "GenericArray<u32,U0>";
    const NEEDS_DROP: bool = false;
    fn mk(_: u32) -> Self {
        Default::default()
    }
    fn get(&self) -> u32 {
        0
    }
    fn norm(_: u32) -> u32 {
        0
    }
}
impl Peek for ZeroLenArr {
    fn peek(&self) -> u32 {
        0
    }
}

/// 72-byte element: larger than a cache line, size not a power of two
pub type Big72 = [u64; 9];
impl Elem for Big72 {
    const KIND: &'static str = "[u64;9]";
    const NEEDS_DROP: bool = false;
    fn mk(v: u32) -> Self {
        let x = v as u64;
        [x, !x, x ^ 1, x ^ 2, x ^ 3, x ^ 4, x ^ 5, x ^ 6, x.wrapping_mul(0x9E37_79B9_7F4A_7C15)]
    }
    fn get(&self) -> u32 {
        let x = self[0];
        if self[1] != !x || self[4] != x ^ 3 || self[8] != x.wrapping_mul(0x9E37_79B9_7F4A_7C15) {
            violation(format!("[u64;9] element torn: {:?}", self));
        }
        x as u32
    }
}
impl Peek for Big72 {
    fn peek(&self) -> u32 {
        self.get()
    }
}

/// over-aligned element (size and alignment 32)
#[derive(Clone, Copy, Default, PartialEq, Debug)]
#[repr(align(32))]
pub struct Al32(pub u32, pub u32);
impl Elem for Al32 {
    const KIND: &'static str = "align(32)";
    const NEEDS_DROP: bool = false;
    fn mk(v: u32) -> Self {
        Al32(v, !v)
    }
    fn get(&self) -> u32 {
        if self.1 != !self.0 {
            violation(format!("align(32) element torn: {:?}", self));
        }
        if (self as *const Self as usize) % 32 != 0 {
            violation(format!("align(32) element at misaligned address {:p}", self));
        }
        self.0
    }
}
impl Peek for Al32 {
    fn peek(&self) -> u32 {
        self.get()
    }
}

/// 96-byte drop-tracked element (a `Tracked` plus padding): larger than a cache line
pub struct TrackedBig {
    t: Tracked,
    pad: [u64; 9],
}
impl TrackedBig {
    pub fn new(v: u32) -> TrackedBig {
        TrackedBig { t: Tracked::new(v), pad: [v as u64 ^ 0x5555; 9] }
    }
}
impl serde::Serialize for TrackedBig {
    fn serialize<S: serde::Serializer>(&self, s: S) -> Result<S::Ok, S::Error> {
        s.serialize_u32(self.get())
    }
}
impl<'de> serde::Deserialize<'de> for TrackedBig {
    fn deserialize<D: serde::Deserializer<'de>>(d: D) -> Result<Self, D::Error> {
        let v = <u32 as serde::Deserialize>::deserialize(d)?;
        Ok(TrackedBig::new(v))
    }
}
impl Elem for TrackedBig {
    const KIND: &'static str = "tracked_96_bytes";
    const NEEDS_DROP: bool = true;
    fn mk(v: u32) -> Self {
        TrackedBig::new(v)
    }
    fn get(&self) -> u32 {
        let v = self.t.observe();
        if self.pad[0] != v as u64 ^ 0x5555 || self.pad[8] != v as u64 ^ 0x5555 {
            violation(format!("96-byte tracked element torn (value {v})"));
        }
        v
    }
    fn ident(&self) -> Option<u32> {
        Some(self.t.id_unchecked())
    }
}
impl Peek for TrackedBig {
    fn peek(&self) -> u32 {
        self.get()
    }
}
impl Clone for TrackedBig {
    fn clone(&self) -> Self {
        let t = self.t.clone();
        let v = t.observe();
        TrackedBig { t, pad: [v as u64 ^ 0x5555; 9] }
    }
}
impl Default for TrackedBig {
    fn default() -> Self {
        TrackedBig { t: Tracked::default(), pad: [0x5555; 9] }
    }
}
impl PartialEq for TrackedBig {
    fn eq(&self, o: &Self) -> bool {
        self.get() == o.get()
    }
}
impl std::fmt::Debug for TrackedBig {
    fn fmt(&self, f: &mut std::fmt::Formatter<'_>) -> std::fmt::Result {
        write!(f, "{}", self.get())
    }
}
