//! Scripted sources: an iterator whose item count, size hint behaviour and fusedness are chosen by the case.

use crate::registry;
use serde::{Deserialize, Serialize};
use std::cell::Cell;
use std::collections::VecDeque;
use std::rc::Rc;

#[derive(Clone, Copy, Debug, Serialize, Deserialize, PartialEq, Eq, Hash)]
pub enum Hint {
    /// (r, Some(r))
    Exact,
    /// (0, Some(r))
    Lower0,
    /// (r, None)
    NoUpper,
    /// (0, None)
    Unknown,
    /// (r/2, Some(2r+3))
    Loose,
    /// claims fewer than it will yield: (0, Some(r-1))   [a lie when r > 0]
    LieLow,
    /// claims more than it will yield: (r+1, Some(r+1))  [a lie]
    LieHigh,
    /// claims exactly `k` whatever it holds (set by the case): (k, Some(k))
    Fixed(usize),
    /// an inconsistent hint whose lower bound exceeds its upper bound: (lo, Some(hi)) with lo > hi - it rules every length out
    Inverted(usize, usize),
    /// counts down from a claimed total `k` as items are yielded: (0, Some(k - yielded)). Reaches (0, Some(0)) after k items
    /// whatever the source still holds - a lie when it holds more than k
    Countdown(usize),
    /// the same with an exact claim: (k - yielded, Some(k - yielded))
    CountdownExact(usize),
    /// truthful but as loose as it gets: (0, Some(usize::MAX)) - what `(0..usize::MAX).filter(..)` reports
    UpperMax,
    /// (r, Some(usize::MAX))
    LowerUpperMax,
}

#[derive(Default, Debug)]
pub struct Probe {
    pub next_calls: Cell<usize>,
    pub hint_calls: Cell<usize>,
    pub polled_after_none: Cell<bool>,
    pub yielded: Cell<usize>,
}

pub struct ScriptIter<T> {
    items: VecDeque<T>,
    /// yielded again after the first None when not fused
    after: VecDeque<T>,
    hint: Hint,
    returned_none: bool,
    pub probe: Rc<Probe>,
    tick: bool,
}

impl<T> ScriptIter<T> {
    pub fn new(items: Vec<T>, after: Vec<T>, hint: Hint, tick: bool) -> (ScriptIter<T>, Rc<Probe>) {
        let probe = Rc::new(Probe::default());
        (ScriptIter { items: items.into(), after: after.into(), hint, returned_none: false, probe: probe.clone(), tick }, probe)
    }
    pub fn remaining(&self) -> usize {
        self.items.len()
    }
    /// everything the source still owns, including what a non-fused source would yield after its first None
    pub fn remaining_all(&self) -> usize {
        self.items.len() + self.after.len()
    }
}

impl<T> Iterator for ScriptIter<T> {
    type Item = T;
    fn next(&mut self) -> Option<T> {
        self.probe.next_calls.set(self.probe.next_calls.get() + 1);
        if self.tick {
            registry::tick("next");
        }
        if self.returned_none {
            self.probe.polled_after_none.set(true);
            let x = self.after.pop_front();
            if x.is_some() {
                self.probe.yielded.set(self.probe.yielded.get() + 1);
            }
            return x;
        }
        match self.items.pop_front() {
            Some(x) => {
                self.probe.yielded.set(self.probe.yielded.get() + 1);
                Some(x)
            }
            None => {
                self.returned_none = true;
                None
            }
        }
    }
    fn size_hint(&self) -> (usize, Option<usize>) {
        self.probe.hint_calls.set(self.probe.hint_calls.get() + 1);
        let r = self.items.len();
        match self.hint {
            Hint::Exact => (r, Some(r)),
            Hint::Lower0 => (0, Some(r)),
            Hint::NoUpper => (r, None),
            Hint::Unknown => (0, None),
            Hint::Loose => (r / 2, Some(2 * r + 3)),
            Hint::LieLow => (0, Some(r.saturating_sub(1))),
            Hint::LieHigh => (r + 1, Some(r + 1)),
            Hint::Fixed(k) => (k, Some(k)),
            Hint::Inverted(lo, hi) => (lo, Some(hi)),
            Hint::Countdown(k) => (0, Some(k.saturating_sub(self.probe.yielded.get()))),
            Hint::CountdownExact(k) => {
                let left = k.saturating_sub(self.probe.yielded.get());
                (left, Some(left))
            }
            Hint::UpperMax => (0, Some(usize::MAX)),
            Hint::LowerUpperMax => (r, Some(usize::MAX)),
        }
    }
}

impl Hint {
    /// is the hint truthful for a source that holds `r` items (at construction time)?
    pub fn truthful(&self, r: usize) -> bool {
        match self {
            Hint::LieLow => r == 0,
            Hint::LieHigh => false,
            Hint::Fixed(k) => *k == r,
            Hint::Inverted(..) => false,
            Hint::Countdown(k) => *k >= r,
            Hint::CountdownExact(k) => *k == r,
            _ => true,
        }
    }
    /// does the initial hint of a source holding `r` items rule out the length n?
    pub fn rules_out(&self, r: usize, n: usize) -> bool {
        let (lo, hi) = match self {
            Hint::Exact => (r, Some(r)),
            Hint::Lower0 => (0, Some(r)),
            Hint::NoUpper => (r, None),
            Hint::Unknown => (0, None),
            Hint::Loose => (r / 2, Some(2 * r + 3)),
            Hint::LieLow => (0, Some(r.saturating_sub(1))),
            Hint::LieHigh => (r + 1, Some(r + 1)),
            Hint::Fixed(k) => (*k, Some(*k)),
            Hint::Inverted(lo, hi) => (*lo, Some(*hi)),
            Hint::Countdown(k) => (0, Some(*k)),
            Hint::CountdownExact(k) => (*k, Some(*k)),
            Hint::UpperMax => (0, Some(usize::MAX)),
            Hint::LowerUpperMax => (r, Some(usize::MAX)),
        };
        lo > n || hi.map(|h| h < n).unwrap_or(false)
    }
}
