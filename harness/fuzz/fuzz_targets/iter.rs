#![no_main]
//! libFuzzer + ASan front end for C06: bytes are decoded into the same case type and run through the same executor
//! (semantic oracle inside the target), see DESIGN.md section 2 (E3).
#[path = "../../src/props/p06.rs"]
#[allow(dead_code)]
mod prop;

libfuzzer_sys::fuzz_target!(|data: &[u8]| {
    harness::engine::fuzzglue::init();
    let case = prop::decode(data);
    harness::engine::fuzzglue::journal(&case);
    let mut acc = harness::engine::Acc::new();
    let r = harness::engine::catch(|| prop::exec(&case, &mut acc)).unwrap_or_else(|c| Err(format!("unexpected panic: {}", c.msg)));
    if let Err(m) = r {
        harness::engine::fuzzglue::fail("C06", &case, &m);
    }
});
