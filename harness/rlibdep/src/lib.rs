pub use generic_array;
